//go:build verif

// Verification shim (injected with `go build -overlay`, never committed to the
// repository). Thin exports of unexported gossip internals so the /verif
// harness can drive the real protocol code packet by packet. No logic of its
// own beyond wiring.
package gossip

import (
	"net"
	"time"

	"go.uber.org/atomic"

	"github.com/andydunstall/piko/pkg/log"
)

// VFailureDetector mirrors the unexported failureDetector interface.
type VFailureDetector interface {
	Report(nodeID string)
	SuspicionLevel(nodeID string) float64
	Remove(nodeID string)
}

// VNode is a gossip node without any background goroutine: a clusterState, a
// packetListener, a streamListener and a Gossip value built without New().
type VNode struct {
	state *clusterState
	pl    *packetListener
	sl    *streamListener
	g     *Gossip
	fd    failureDetector
}

type VNodeConfig struct {
	ID            string
	Addr          string
	MaxPacketSize int
	StreamTimeout time.Duration
	PacketConn    net.PacketConn
	// FailureDetector is optional; nil uses the real accrual detector with
	// the given bootstrap interval.
	FailureDetector   VFailureDetector
	BootstrapInterval time.Duration
	Watcher           Watcher
}

func NewVNode(c VNodeConfig) *VNode {
	var fd failureDetector
	if c.FailureDetector != nil {
		fd = c.FailureDetector
	} else {
		b := c.BootstrapInterval
		if b == 0 {
			b = 200 * time.Millisecond
		}
		fd = newAccrualFailureDetector(b, 50)
	}
	w := c.Watcher
	if w == nil {
		w = newNopWatcher()
	}
	st := c.StreamTimeout
	if st == 0 {
		st = streamTimeout
	}
	metrics := newMetrics()
	logger := log.NewNopLogger()
	state := newClusterState(c.ID, c.Addr, fd, metrics, w)
	pl := newPacketListener(c.PacketConn, state, fd, c.MaxPacketSize, metrics, logger)
	sl := newStreamListener(nil, state, st, metrics, logger)
	g := &Gossip{
		state: state,
		config: &Config{
			BindAddr:      c.Addr,
			AdvertiseAddr: c.Addr,
			Interval:      100 * time.Millisecond,
			MaxPacketSize: c.MaxPacketSize,
		},
		streamListener: sl,
		packetListener: pl,
		dialer:         &net.Dialer{Timeout: st},
		packetConn:     c.PacketConn,
		metrics:        metrics,
		logger:         logger,
		closed:         atomic.NewBool(false),
		shutdownCh:     make(chan struct{}),
	}
	return &VNode{state: state, pl: pl, sl: sl, g: g, fd: fd}
}

// VWrap exposes the internals of a Gossip created with New().
func VWrap(g *Gossip) *VNode {
	return &VNode{
		state: g.state, pl: g.packetListener, sl: g.streamListener, g: g,
		fd: g.state.failureDetector,
	}
}

// ServeStreams accepts stream connections on ln with the real streamListener.
func (n *VNode) ServeStreams(ln net.Listener) {
	n.sl.ln = ln
	go n.sl.Serve()
}

func (n *VNode) UpsertLocal(k, v string)       { n.state.UpsertLocal(k, v) }
func (n *VNode) DeleteLocal(k string)          { n.state.DeleteLocal(k) }
func (n *VNode) LeaveLocal()                   { n.state.LeaveLocal() }
func (n *VNode) CompactLocal(threshold int)    { n.state.CompactLocal(threshold) }
func (n *VNode) UpdateLiveness(th float64)     { n.state.UpdateLiveness(th) }
func (n *VNode) RemoveExpiredAt(t time.Time)   { n.state.RemoveExpiredAt(t) }
func (n *VNode) RemoveExpired()                { n.state.RemoveExpired() }
func (n *VNode) LocalNode() *NodeState         { return n.state.LocalNode() }
func (n *VNode) Node(id string) (*NodeState, bool) { return n.state.Node(id) }
func (n *VNode) Nodes() []NodeMetadata         { return n.state.Nodes() }
func (n *VNode) LiveNodes() []NodeMetadata     { return n.state.LiveNodes() }
func (n *VNode) UnreachableNodes() []NodeMetadata { return n.state.UnreachableNodes() }
func (n *VNode) Gossip() *Gossip               { return n.g }

// GossipWith runs the real Gossip.gossip (send a digest request to peer).
func (n *VNode) GossipWith(peer NodeMetadata) error { return n.g.gossip(peer) }

// GossipRound runs the real Gossip.gossipRound.
func (n *VNode) GossipRound() error { return n.g.gossipRound() }

// HandlePacket runs the real packetListener.handlePacket.
func (n *VNode) HandlePacket(b []byte) error { return n.pl.handlePacket(b) }

// HandleStream runs the real streamListener.handleConn.
func (n *VNode) HandleStream(c net.Conn) error { return n.sl.handleConn(c) }

// JoinAddr runs the real Gossip.join.
func (n *VNode) JoinAddr(addr string) (string, error) { return n.g.join(addr) }

// LeaveTo runs the real Gossip.leave (send local delta to addr over a stream).
func (n *VNode) LeaveTo(addr string) error { return n.g.leave(addr) }

// LeaveCluster runs the real exported Gossip.Leave.
func (n *VNode) LeaveCluster() error { return n.g.Leave() }

// SetMaxPacketSize changes the packet size limit of the packet listener and
// the gossiper (both read it on every send).
func (n *VNode) SetMaxPacketSize(max int) {
	n.pl.maxPacketSize = max
	n.g.config.MaxPacketSize = max
}

// SetStreamTimeout changes the deadline the stream listener sets on accepted
// connections (read per connection; not safe while a handler is running).
func (n *VNode) SetStreamTimeout(d time.Duration) time.Duration {
	old := n.sl.streamTimeout
	n.sl.streamTimeout = d
	return old
}

// ReportHeard reports an arrival to the node's failure detector.
func (n *VNode) ReportHeard(id string) { n.fd.Report(id) }

const (
	VLeftKey            = leftKey
	VCompactKey         = compactKey
	VNodeExpiry         = nodeExpiry
	VSuspicionThreshold = suspicionThreshold
	VCompactThreshold   = compactThreshold
)

// ---- codec ---------------------------------------------------------------

type VDigestEntry struct {
	ID      string
	Addr    string
	Version uint64
	Left    bool
}

type VDeltaEntry struct {
	ID      string
	Addr    string
	Entries []Entry
}

func toDigest(d []VDigestEntry) digest {
	var out digest
	for _, e := range d {
		out = append(out, digestEntry{ID: e.ID, Addr: e.Addr, Version: e.Version, Left: e.Left})
	}
	return out
}

func fromDigest(d digest) []VDigestEntry {
	var out []VDigestEntry
	for _, e := range d {
		out = append(out, VDigestEntry{ID: e.ID, Addr: e.Addr, Version: e.Version, Left: e.Left})
	}
	return out
}

func toDelta(d []VDeltaEntry) delta {
	var out delta
	for _, e := range d {
		out = append(out, deltaEntry{ID: e.ID, Addr: e.Addr, Entries: e.Entries})
	}
	return out
}

func fromDelta(d delta) []VDeltaEntry {
	var out []VDeltaEntry
	for _, e := range d {
		out = append(out, VDeltaEntry{ID: e.ID, Addr: e.Addr, Entries: e.Entries})
	}
	return out
}

func VEncodeDigest(nodeID, addr string, request bool, d []VDigestEntry, max int) ([]byte, error) {
	return encodeDigest(digestHeader{NodeID: nodeID, Addr: addr, Request: request}, toDigest(d), max)
}

func VEncodeDelta(nodeID, addr string, d []VDeltaEntry, max int) ([]byte, error) {
	return encodeDelta(deltaHeader{NodeID: nodeID, Addr: addr}, toDelta(d), max)
}

func VDecodeDigest(b []byte) (nodeID, addr string, request bool, d []VDigestEntry, err error) {
	h, dg, err := decodeDigest(b)
	return h.NodeID, h.Addr, h.Request, fromDigest(dg), err
}

func VDecodeDelta(b []byte) (nodeID, addr string, d []VDeltaEntry, err error) {
	h, dl, err := decodeDelta(b)
	return h.NodeID, h.Addr, fromDelta(dl), err
}

// VDigest / VDelta expose the real digest and delta computations of a node.
func (n *VNode) Digest() []VDigestEntry { return fromDigest(n.state.Digest()) }
func (n *VNode) Delta(d []VDigestEntry, full bool) []VDeltaEntry {
	return fromDelta(n.state.Delta(toDigest(d), full))
}
func (n *VNode) ApplyDigest(d []VDigestEntry) { n.state.ApplyDigest(toDigest(d)) }
func (n *VNode) ApplyDelta(d []VDeltaEntry)   { n.state.ApplyDelta(toDelta(d)) }

// ---- failure detector ------------------------------------------------------

// VAccrual wraps the real accrual failure detector with explicit timestamps.
type VAccrual struct{ d *accrualFailureDetector }

func NewVAccrual(bootstrap time.Duration, sampleSize int) *VAccrual {
	return &VAccrual{d: newAccrualFailureDetector(bootstrap, sampleSize)}
}
func (a *VAccrual) ReportAt(id string, t time.Time) { a.d.ReportWithTimestamp(id, t) }
func (a *VAccrual) SuspicionAt(id string, t time.Time) float64 {
	return a.d.SuspicionLevelAt(id, t)
}
func (a *VAccrual) Remove(id string) { a.d.Remove(id) }
