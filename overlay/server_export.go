//go:build verif

// Verification shim (overlay, never committed to the repository).
package server

import (
	"github.com/andydunstall/piko/server/admin"
	"github.com/andydunstall/piko/server/gossip"
	"github.com/andydunstall/piko/server/proxy"
	"github.com/andydunstall/piko/server/upstream"
)

type VerifParts struct {
	Proxy    *proxy.Server
	Upstream *upstream.Server
	Admin    *admin.Server
	Gossip   *gossip.Gossip
}

func (s *Server) VerifParts() VerifParts {
	return VerifParts{
		Proxy:    s.proxyServer,
		Upstream: s.upstreamServer,
		Admin:    s.adminServer,
		Gossip:   s.gossiper,
	}
}
