//go:build verif

// Verification shim (overlay, never committed to the repository).
package admin

import "github.com/gin-gonic/gin"

func (s *Server) VerifRoutes() gin.RoutesInfo { return s.router.Routes() }
