//go:build verif

// Verification shim (overlay, never committed to the repository).
package gossip

import (
	"github.com/andydunstall/piko/pkg/gossip"
	"github.com/andydunstall/piko/pkg/log"
	"github.com/andydunstall/piko/server/cluster"
)

// VGossiper is what the syncer publishes local state to.
type VGossiper interface {
	UpsertLocal(key, value string)
	DeleteLocal(key string)
}

// VSyncer is the real syncer behind an exported name.
type VSyncer struct{ s *syncer }

func NewVSyncer(clusterState *cluster.State) *VSyncer {
	return &VSyncer{s: newSyncer(clusterState, log.NewNopLogger())}
}

func (v *VSyncer) Watcher() gossip.Watcher { return v.s }
func (v *VSyncer) Sync(g VGossiper)        { v.s.Sync(g) }
func (v *VSyncer) PendingIDs() []string {
	v.s.mu.Lock()
	defer v.s.mu.Unlock()
	var ids []string
	for id := range v.s.pendingNodes {
		ids = append(ids, id)
	}
	return ids
}

// VGossiper exposes the inner *gossip.Gossip of a server gossip.
func (g *Gossip) VInner() *gossip.Gossip { return g.gossiper }
