//go:build verif

// Verification shim (overlay, never committed to the repository).
package upstream

import "github.com/gin-gonic/gin"

func (s *Server) VerifOpenSessions() int { return s.openSessions() }

func (s *Server) VerifRoutes() gin.RoutesInfo {
	return s.httpServer.Handler.(*gin.Engine).Routes()
}

func (s *Server) VerifManager() Manager { return s.upstreams }

// VerifSetRebalance replaces the rebalance configuration (read on every
// Rebalance call).
func (s *Server) VerifSetRebalance(threshold, shedRate float64, minConns uint) {
	s.config.Rebalance.Threshold = threshold
	s.config.Rebalance.ShedRate = shedRate
	s.config.Rebalance.MinConns = minConns
}

// VerifSessionCounts returns the number of registered sessions and how many
// of those are already closed (shed but not yet deregistered).
func (s *Server) VerifSessionCounts() (registered, closed int) {
	s.sessionsMu.Lock()
	defer s.sessionsMu.Unlock()
	for sess := range s.sessions {
		registered++
		if sess.IsClosed() {
			closed++
		}
	}
	return
}
