//go:build verif

// Verification shim (overlay, never committed to the repository).
package upstream

import "github.com/gin-gonic/gin"

func (s *Server) VerifOpenSessions() int { return s.openSessions() }

func (s *Server) VerifRoutes() gin.RoutesInfo {
	return s.httpServer.Handler.(*gin.Engine).Routes()
}

func (s *Server) VerifManager() Manager { return s.upstreams }
