package nodes

import (
	"crypto/ecdsa"
	"crypto/elliptic"
	"crypto/rand"
	"crypto/rsa"
	"crypto/x509"
	"encoding/base64"
	"encoding/json"
	"encoding/pem"
	"fmt"
	"math/big"
	"os"
	"path/filepath"
	"strings"
	"time"

	"github.com/golang-jwt/jwt/v5"

	"github.com/andydunstall/piko/pkg/auth"
)

// keyset is one run's key material: the configured keys and "wrong" keys of
// every family.
type keyset struct {
	hmac, hmacWrong []byte
	rsa, rsaWrong   *rsa.PrivateKey
	ec, ecWrong     *ecdsa.PrivateKey
	rsaPEM, ecPEM   string
	jwksPath        string
}

func newKeyset(dir string) (*keyset, error) {
	ks := &keyset{hmac: []byte("c09-hmac-secret-0123456789abcdef"), hmacWrong: []byte("another-secret-0123456789abcdef!")}
	var err error
	if ks.rsa, err = rsa.GenerateKey(rand.Reader, 2048); err != nil {
		return nil, err
	}
	if ks.rsaWrong, err = rsa.GenerateKey(rand.Reader, 2048); err != nil {
		return nil, err
	}
	if ks.ec, err = ecdsa.GenerateKey(elliptic.P256(), rand.Reader); err != nil {
		return nil, err
	}
	if ks.ecWrong, err = ecdsa.GenerateKey(elliptic.P256(), rand.Reader); err != nil {
		return nil, err
	}
	pub := func(k any) string {
		b, _ := x509.MarshalPKIXPublicKey(k)
		return string(pem.EncodeToMemory(&pem.Block{Type: "PUBLIC KEY", Bytes: b}))
	}
	ks.rsaPEM, ks.ecPEM = pub(&ks.rsa.PublicKey), pub(&ks.ec.PublicKey)
	b64 := func(b []byte) string { return base64.RawURLEncoding.EncodeToString(b) }
	pad := func(n *big.Int, size int) []byte {
		b := n.Bytes()
		if len(b) < size {
			b = append(make([]byte, size-len(b)), b...)
		}
		return b
	}
	jwks := map[string]any{"keys": []map[string]any{
		{"kty": "RSA", "kid": "rsa-1", "use": "sig", "n": b64(ks.rsa.N.Bytes()), "e": b64(big.NewInt(int64(ks.rsa.E)).Bytes())},
		{"kty": "EC", "kid": "ec-1", "use": "sig", "crv": "P-256", "x": b64(pad(ks.ec.X, 32)), "y": b64(pad(ks.ec.Y, 32))},
	}}
	jb, _ := json.Marshal(jwks)
	ks.jwksPath = filepath.Join(dir, "jwks.json")
	if err := os.WriteFile(ks.jwksPath, jb, 0o600); err != nil {
		return nil, err
	}
	return ks, nil
}

// authSetup is one key configuration.
type authSetup struct {
	Name     string
	HS       bool
	RS       bool
	ES       bool
	JWKS     bool
	Audience string
	Issuer   string
}

func (a authSetup) config(ks *keyset) auth.Config {
	c := auth.Config{Audience: a.Audience, Issuer: a.Issuer}
	if a.JWKS {
		c.JWKS = auth.JWKSConfig{Endpoint: "file://" + ks.jwksPath}
		return c
	}
	if a.HS {
		c.HMACSecretKey = string(ks.hmac)
	}
	if a.RS {
		c.RSAPublicKey = ks.rsaPEM
	}
	if a.ES {
		c.ECDSAPublicKey = ks.ecPEM
	}
	return c
}

type claimOpts struct {
	Exp       time.Duration // relative to now; 0 = no exp
	Nbf       time.Duration // relative; 0 = none
	Aud       []string
	Iss       string
	Endpoints []string
	Kid       string
}

func (o claimOpts) claims() jwt.MapClaims {
	m := jwt.MapClaims{}
	now := time.Now()
	if o.Exp != 0 {
		m["exp"] = now.Add(o.Exp).Unix()
	}
	if o.Nbf != 0 {
		m["nbf"] = now.Add(o.Nbf).Unix()
	}
	if o.Aud != nil {
		if len(o.Aud) == 1 {
			m["aud"] = o.Aud[0]
		} else {
			m["aud"] = o.Aud
		}
	}
	if o.Iss != "" {
		m["iss"] = o.Iss
	}
	if o.Endpoints != nil {
		m["piko"] = map[string]any{"endpoints": o.Endpoints}
	}
	return m
}

func sign(alg string, key any, o claimOpts) string {
	t := jwt.NewWithClaims(jwt.GetSigningMethod(alg), o.claims())
	if o.Kid != "" {
		t.Header["kid"] = o.Kid
	}
	s, err := t.SignedString(key)
	if err != nil {
		panic("VERIF-HARNESS-ERROR sign " + alg + ": " + err.Error())
	}
	return s
}

// unsigned builds header.payload. with an arbitrary alg name and signature.
func unsigned(alg string, o claimOpts, sig string) string {
	h, _ := json.Marshal(map[string]any{"alg": alg, "typ": "JWT"})
	p, _ := json.Marshal(o.claims())
	return base64.RawURLEncoding.EncodeToString(h) + "." + base64.RawURLEncoding.EncodeToString(p) + "." + sig
}

// tamper flips one character in the middle of segment seg (0,1,2).
func tamper(tok string, seg int) string {
	parts := strings.Split(tok, ".")
	s := []byte(parts[seg])
	i := len(s) / 2
	if s[i] == 'A' {
		s[i] = 'B'
	} else {
		s[i] = 'A'
	}
	parts[seg] = string(s)
	return strings.Join(parts, ".")
}

type tokenCase struct {
	Name  string
	Valid bool
	// headers to send (name, value); nil = no authorization at all
	Headers [][2]string
}

func bearer(tok string) [][2]string { return [][2]string{{"Authorization", "Bearer " + tok}} }

// tokenMatrix enumerates the token variations for one key configuration.
func tokenMatrix(ks *keyset, a authSetup, endpoints []string) []tokenCase {
	base := claimOpts{Exp: 24 * time.Hour, Endpoints: endpoints}
	if a.Audience != "" {
		base.Aud = []string{a.Audience}
	}
	if a.Issuer != "" {
		base.Iss = a.Issuer
	}
	withKid := func(o claimOpts, kid string) claimOpts {
		if a.JWKS {
			o.Kid = kid
		}
		return o
	}
	var out []tokenCase
	add := func(name string, valid bool, hs [][2]string) { out = append(out, tokenCase{name, valid, hs}) }
	// ---- tokens of every family, valid iff the family is configured
	type fam struct {
		algs    []string
		key     any
		wrong   any
		enabled bool
		kid     string
	}
	fams := map[string]fam{
		"HS": {[]string{"HS256", "HS384", "HS512"}, ks.hmac, ks.hmacWrong, a.HS && !a.JWKS, ""},
		"RS": {[]string{"RS256", "RS384", "RS512"}, ks.rsa, ks.rsaWrong, a.RS || a.JWKS, "rsa-1"},
		"ES": {[]string{"ES256"}, ks.ec, ks.ecWrong, a.ES || a.JWKS, "ec-1"},
	}
	var aValid string
	for _, fn := range []string{"HS", "RS", "ES"} {
		f := fams[fn]
		for _, alg := range f.algs {
			tok := sign(alg, f.key, withKid(base, f.kid))
			add(alg+" signed with the configured key", f.enabled, bearer(tok))
			if f.enabled && aValid == "" {
				aValid = tok
			}
			add(alg+" signed with another key of the same family", false, bearer(sign(alg, f.wrong, withKid(base, f.kid))))
		}
	}
	if aValid == "" {
		panic("VERIF-HARNESS-ERROR no valid token for " + a.Name)
	}
	// ---- header forms
	add("no authorization header", false, nil)
	add("scheme Basic", false, [][2]string{{"Authorization", "Basic dXNlcjpwYXNz"}})
	add("scheme 'bearer' (lower case)", false, [][2]string{{"Authorization", "bearer " + aValid}})
	add("scheme Token", false, [][2]string{{"Authorization", "Token " + aValid}})
	add("'Bearer' without a token", false, [][2]string{{"Authorization", "Bearer"}})
	add("'Bearer ' with an empty token", false, [][2]string{{"Authorization", "Bearer "}})
	add("token without a scheme", false, [][2]string{{"Authorization", aValid}})
	add("two tokens in one header", false, [][2]string{{"Authorization", "Bearer " + aValid + " " + aValid}})
	// ---- alg none and friends
	for _, alg := range []string{"none", "None", "NONE", "nOnE"} {
		add("alg="+alg+" unsigned", false, bearer(unsigned(alg, base, "")))
	}
	add("alg=none with the signature of a valid token", false, bearer(unsigned("none", base, strings.Split(aValid, ".")[2])))
	add("alg=HS256 header on a valid token's payload with an empty signature", false, bearer(unsigned("HS256", base, "")))
	// ---- algorithm confusion
	for name, secret := range map[string][]byte{
		"the PEM of the RSA public key":   []byte(ks.rsaPEM),
		"the PEM of the ECDSA public key": []byte(ks.ecPEM),
		"the RSA modulus bytes":           ks.rsa.N.Bytes(),
		"an empty key":                    {},
		"a single zero byte":              {0},
	} {
		for _, alg := range []string{"HS256", "HS384", "HS512"} {
			add(alg+" signed with "+name, false, bearer(sign(alg, secret, withKid(base, "rsa-1"))))
		}
	}
	// ---- tampering
	for seg, nm := range []string{"header", "payload", "signature"} {
		t := tamper(aValid, seg)
		if t != aValid {
			add("valid token with one character of the "+nm+" changed", false, bearer(t))
		}
	}
	add("valid token truncated by one character", false, bearer(aValid[:len(aValid)-1]))
	add("valid token with a fourth segment", false, bearer(aValid+".AAAA"))
	// ---- time
	firstAlg, firstKey, firstKid := "", any(nil), ""
	for _, fn := range []string{"HS", "RS", "ES"} {
		if f := fams[fn]; f.enabled {
			firstAlg, firstKey, firstKid = f.algs[0], f.key, f.kid
			break
		}
	}
	mk := func(o claimOpts) string { return sign(firstAlg, firstKey, withKid(o, firstKid)) }
	o := base
	o.Exp = -2 * time.Minute
	add("expired two minutes ago", false, bearer(mk(o)))
	o = base
	// far enough ahead that a slow run on a loaded machine cannot reach it (a
	// two-minute margin was overtaken by a five-minute run: a false alarm)
	o.Nbf = 48 * time.Hour
	add("not valid before two days from now", false, bearer(mk(o)))
	o = base
	o.Exp = 0
	add("no expiry claim", true, bearer(mk(o)))
	// ---- audience / issuer
	o = base
	o.Aud = []string{"somebody-else"}
	add("audience of somebody else", a.Audience == "", bearer(mk(o)))
	o = base
	o.Aud = nil
	add("no audience claim", a.Audience == "", bearer(mk(o)))
	if a.Audience != "" {
		o = base
		o.Aud = []string{"other", a.Audience}
		add("audience list containing ours", true, bearer(mk(o)))
	}
	o = base
	o.Iss = "somebody-else"
	add("issuer somebody else", a.Issuer == "", bearer(mk(o)))
	o = base
	o.Iss = ""
	add("no issuer claim", a.Issuer == "", bearer(mk(o)))
	// ---- JWKS key ids
	if a.JWKS {
		o = base
		o.Kid = "unknown-kid"
		add("JWKS: unknown kid", false, bearer(sign("RS256", ks.rsa, o)))
		o.Kid = ""
		// without a kid the key-set lookup tries every key: still signed by a configured key
		add("JWKS: no kid, signed with the configured RSA key", true, bearer(sign("RS256", ks.rsa, o)))
		add("JWKS: no kid, signed with another RSA key", false, bearer(sign("RS256", ks.rsaWrong, o)))
		o.Kid = "ec-1"
		add("JWKS: RS256 token naming the EC key", false, bearer(sign("RS256", ks.rsa, o)))
		o.Kid = "rsa-1"
		add("JWKS: ES256 token naming the RSA key", false, bearer(sign("ES256", ks.ec, o)))
	}
	// ---- header precedence
	invalid := tamper(aValid, 2)
	add("x-piko-authorization invalid, Authorization valid", false, [][2]string{{"x-piko-authorization", "Bearer " + invalid}, {"Authorization", "Bearer " + aValid}})
	add("x-piko-authorization valid, Authorization invalid", true, [][2]string{{"X-Piko-Authorization", "Bearer " + aValid}, {"Authorization", "Bearer " + invalid}})
	add("x-piko-authorization valid, Authorization of another scheme", true, [][2]string{{"x-piko-authorization", "Bearer " + aValid}, {"Authorization", "Basic dXNlcjpwYXNz"}})
	add("x-piko-authorization only", true, [][2]string{{"x-piko-authorization", "Bearer " + aValid}})
	add("valid token naming a tenant although none is configured", false, [][2]string{{"Authorization", "Bearer " + aValid}, {"x-piko-tenant-id", "t1"}})
	return out
}

func init() {
	_ = fmt.Sprint
}
