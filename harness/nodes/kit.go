// Package nodes is engine E2: real in-process piko server nodes on loopback,
// real client listeners/dialers, a raw-socket HTTP client and admin/metrics
// scraping. Built with the race detector.
package nodes

import (
	"bufio"
	"bytes"
	"context"
	"fmt"
	"io"
	"net"
	"net/http"
	"net/url"
	"sort"
	"strconv"
	"strings"
	"sync"
	"sync/atomic"
	"time"

	"github.com/andydunstall/piko/client"
	"github.com/andydunstall/piko/pkg/auth"
	"github.com/andydunstall/piko/pkg/log"
	"github.com/andydunstall/piko/server"
	"github.com/andydunstall/piko/server/cluster"
	"github.com/andydunstall/piko/server/config"
)

// ---- nodes -------------------------------------------------------------------------

type NodeOpts struct {
	ID             string
	Join           []string
	ProxyTimeout   time.Duration // 0 = piko's default (30s); negative = disabled (0)
	GossipInterval time.Duration
	GracePeriod    time.Duration
	ProxyAuth      auth.Config
	UpstreamAuth   auth.Config
	AdminAuth      auth.Config
	Tenants        []config.TenantConfig
	Rebalance      config.RebalanceConfig
	Mutate         func(*config.Config)
}

type Node struct {
	ID      string
	Srv     *server.Server
	Conf    *config.Config
	stopped atomic.Bool
}

var nodeSeq atomic.Int64

func StartNode(o NodeOpts) (*Node, error) {
	conf := config.Default()
	conf.Proxy.BindAddr = "127.0.0.1:0"
	conf.Upstream.BindAddr = "127.0.0.1:0"
	conf.Admin.BindAddr = "127.0.0.1:0"
	conf.Cluster.Gossip.BindAddr = "127.0.0.1:0"
	conf.Cluster.NodeID = o.ID
	if conf.Cluster.NodeID == "" {
		conf.Cluster.NodeID = fmt.Sprintf("node%d", nodeSeq.Add(1))
	}
	conf.Cluster.Join = o.Join
	conf.Cluster.Gossip.Interval = 10 * time.Millisecond
	if o.GossipInterval != 0 {
		conf.Cluster.Gossip.Interval = o.GossipInterval
	}
	if o.GracePeriod != 0 {
		conf.GracePeriod = o.GracePeriod
	}
	switch {
	case o.ProxyTimeout < 0:
		conf.Proxy.Timeout = 0
	case o.ProxyTimeout > 0:
		conf.Proxy.Timeout = o.ProxyTimeout
	}
	conf.Proxy.Auth = o.ProxyAuth
	conf.Upstream.Auth = o.UpstreamAuth
	conf.Admin.Auth = o.AdminAuth
	conf.Upstream.Tenants = o.Tenants
	conf.Upstream.Rebalance = o.Rebalance
	if o.Mutate != nil {
		o.Mutate(conf)
	}
	srv, err := server.NewServer(conf, log.NewNopLogger())
	if err != nil {
		return nil, err
	}
	if err := srv.Start(); err != nil {
		return nil, err
	}
	return &Node{ID: conf.Cluster.NodeID, Srv: srv, Conf: conf}, nil
}

func (n *Node) ProxyAddr() string    { return n.Conf.Proxy.AdvertiseAddr }
func (n *Node) UpstreamAddr() string { return n.Conf.Upstream.AdvertiseAddr }
func (n *Node) AdminAddr() string    { return n.Conf.Admin.AdvertiseAddr }
func (n *Node) GossipAddr() string   { return n.Conf.Cluster.Gossip.AdvertiseAddr }
func (n *Node) Cluster() *cluster.State {
	return n.Srv.ClusterState()
}

func (n *Node) Stop() {
	if n.stopped.CompareAndSwap(false, true) {
		n.Srv.Shutdown()
	}
}

func (n *Node) Stopped() bool { return n.stopped.Load() }

// StartCluster starts k nodes; every node after the first joins the first.
func StartCluster(k int, mk func(i int) NodeOpts) ([]*Node, error) {
	var nodes []*Node
	for i := 0; i < k; i++ {
		o := NodeOpts{}
		if mk != nil {
			o = mk(i)
		}
		if i > 0 && o.Join == nil {
			o.Join = []string{nodes[0].GossipAddr()}
		}
		n, err := StartNode(o)
		if err != nil {
			StopAll(nodes)
			return nil, err
		}
		nodes = append(nodes, n)
	}
	return nodes, nil
}

func StopAll(nodes []*Node) {
	var wg sync.WaitGroup
	for _, n := range nodes {
		wg.Add(1)
		go func(n *Node) { defer wg.Done(); n.Stop() }(n)
	}
	wg.Wait()
}

func sameEps(a, b map[string]int) bool {
	if len(a) != len(b) {
		return false
	}
	for k, v := range a {
		if b[k] != v {
			return false
		}
	}
	return true
}

// Settled reports whether every running node's routing table mirrors every
// other running node's own state (the logical "routing information has
// settled"), and describes the first difference otherwise.
func Settled(nodes []*Node) (bool, string) {
	for _, p := range nodes {
		if p.Stopped() {
			continue
		}
		for _, o := range nodes {
			if o == p || o.Stopped() {
				continue
			}
			truth := o.Cluster().LocalNode()
			got, ok := p.Cluster().Node(o.ID)
			if !ok {
				return false, fmt.Sprintf("%s does not know %s", p.ID, o.ID)
			}
			if got.Status != cluster.NodeStatusActive {
				return false, fmt.Sprintf("%s sees %s as %s", p.ID, o.ID, got.Status)
			}
			if !sameEps(got.Endpoints, truth.Endpoints) {
				return false, fmt.Sprintf("%s sees %s with %v, it has %v", p.ID, o.ID, got.Endpoints, truth.Endpoints)
			}
		}
	}
	return true, ""
}

func WaitSettled(nodes []*Node, timeout time.Duration) (bool, string) {
	var why string
	end := time.Now().Add(timeout)
	for {
		ok, w := Settled(nodes)
		if ok {
			return true, ""
		}
		why = w
		if time.Now().After(end) {
			return false, why
		}
		time.Sleep(5 * time.Millisecond)
	}
}

// ---- upstreams -----------------------------------------------------------------------

// Seen is what a recording HTTP upstream observed for one request.
type Seen struct {
	Method     string
	RequestURI string
	Host       string
	Header     http.Header
	Body       []byte
	Proto      string
	TE         []string
}

type HTTPUpstream struct {
	Endpoint string
	ID       string
	NodeID   string
	Ln       client.Listener
	srv      *http.Server
	mu       sync.Mutex
	seen     []Seen
	Requests atomic.Int64
	// Handler overrides the default stamping handler (after recording).
	Handler func(w http.ResponseWriter, r *http.Request, body []byte)
	closed  atomic.Bool
}

func (u *HTTPUpstream) Stamp() string { return u.Endpoint + "|" + u.ID + "|" + u.NodeID }

func (u *HTTPUpstream) TakeSeen() []Seen {
	u.mu.Lock()
	defer u.mu.Unlock()
	s := u.seen
	u.seen = nil
	return s
}

// ListenOpts configures an upstream listener.
type ListenOpts struct {
	Token    string
	TenantID string
	// CancelCtx: create the listener the way the agent does, with a connect
	// timeout context that is cancelled once connected.
	CancelCtx bool
	URL       string // override the upstream URL (e.g. a load balancer in front)
}

func listen(n *Node, endpoint string, o ListenOpts) (client.Listener, error) {
	us := o.URL
	if us == "" {
		us = "http://" + n.UpstreamAddr()
	}
	u, _ := url.Parse(us)
	up := &client.Upstream{URL: u, Token: o.Token, TenantID: o.TenantID,
		MinReconnectBackoff: 20 * time.Millisecond, MaxReconnectBackoff: 200 * time.Millisecond}
	if !o.CancelCtx {
		// a context that is never cancelled once the listener is connected, but
		// that gives up connecting after 15 s (the client retries for ever
		// against a node that is down)
		ctx, cancel := context.WithCancel(context.Background())
		timer := time.AfterFunc(15*time.Second, cancel)
		ln, err := up.Listen(ctx, endpoint)
		if err == nil {
			timer.Stop()
		} else {
			cancel()
		}
		return ln, err
	}
	ctx, cancel := context.WithTimeout(context.Background(), 10*time.Second)
	ln, err := up.Listen(ctx, endpoint)
	cancel()
	return ln, err
}

// ListenHTTP registers a recording, stamping HTTP upstream for endpoint on node n.
func ListenHTTP(n *Node, endpoint, id string, o ListenOpts) (*HTTPUpstream, error) {
	ln, err := listen(n, endpoint, o)
	if err != nil {
		return nil, err
	}
	u := &HTTPUpstream{Endpoint: endpoint, ID: id, NodeID: n.ID, Ln: ln}
	u.srv = &http.Server{Handler: http.HandlerFunc(func(w http.ResponseWriter, r *http.Request) {
		body, _ := io.ReadAll(r.Body)
		u.Requests.Add(1)
		u.mu.Lock()
		if len(u.seen) < 1000 {
			u.seen = append(u.seen, Seen{Method: r.Method, RequestURI: r.RequestURI, Host: r.Host,
				Header: r.Header.Clone(), Body: body, Proto: r.Proto, TE: r.TransferEncoding})
		}
		u.mu.Unlock()
		if u.Handler != nil {
			u.Handler(w, r, body)
			return
		}
		w.Header().Set("X-Stamp", u.Stamp())
		w.Header().Set("X-Nonce", r.Header.Get("X-Nonce"))
		w.WriteHeader(200)
		_, _ = w.Write([]byte("stamp=" + u.Stamp() + "\n"))
	})}
	go func() { _ = u.srv.Serve(ln) }()
	return u, nil
}

// GoAway stops accepting (listener Close = yamux go-away) but keeps the connection.
func (u *HTTPUpstream) GoAway() { _ = u.Ln.Close() }

// Shutdown closes the underlying connection.
func (u *HTTPUpstream) Shutdown() {
	if u.closed.CompareAndSwap(false, true) {
		if s, ok := u.Ln.(interface{ Shutdown() error }); ok {
			_ = s.Shutdown()
		} else {
			_ = u.Ln.Close()
		}
		_ = u.srv.Close()
	}
}

// TCPUpstream writes its stamp on accept and then echoes.
type TCPUpstream struct {
	Endpoint string
	ID       string
	NodeID   string
	Ln       client.Listener
	Accepted atomic.Int64
	closed   atomic.Bool
	AcceptErr atomic.Value // error that ended the accept loop
}

func (u *TCPUpstream) Stamp() string { return u.Endpoint + "|" + u.ID + "|" + u.NodeID }

func ListenTCP(n *Node, endpoint, id string, o ListenOpts) (*TCPUpstream, error) {
	ln, err := listen(n, endpoint, o)
	if err != nil {
		return nil, err
	}
	u := &TCPUpstream{Endpoint: endpoint, ID: id, NodeID: n.ID, Ln: ln}
	go func() {
		for {
			c, err := ln.Accept()
			if err != nil {
				u.AcceptErr.Store(err)
				return
			}
			u.Accepted.Add(1)
			go func() {
				defer c.Close()
				_, _ = c.Write([]byte("STAMP " + u.Stamp() + "\n"))
				_, _ = io.Copy(c, c)
			}()
		}
	}()
	return u, nil
}

func (u *TCPUpstream) GoAway() { _ = u.Ln.Close() }
func (u *TCPUpstream) Shutdown() {
	if u.closed.CompareAndSwap(false, true) {
		if s, ok := u.Ln.(interface{ Shutdown() error }); ok {
			_ = s.Shutdown()
		} else {
			_ = u.Ln.Close()
		}
	}
}

// DialTCP opens a tunnelled TCP connection to endpoint through node n and
// reads the stamp line.
func DialTCP(n *Node, endpoint, token string, timeout time.Duration) (net.Conn, string, error) {
	return DialTCPPre(n, endpoint, token, timeout, nil)
}

// TunnelHTTPError: the first bytes that came back through a TCP tunnel were an
// HTTP status line: the tunnel's bytes were interpreted by an HTTP server, not
// delivered to a TCP upstream (which always speaks the stamp line first).
type TunnelHTTPError struct {
	StatusLine string
	Stamp      string // X-Stamp of the HTTP upstream that answered, if any
}

func (e *TunnelHTTPError) Error() string {
	return fmt.Sprintf("the TCP tunnel was answered by an HTTP server: %q (X-Stamp %q)", e.StatusLine, e.Stamp)
}

// DialTCPPre is DialTCP with a preamble the client writes immediately after the
// tunnel is open, before reading anything (a client-speaks-first protocol).
func DialTCPPre(n *Node, endpoint, token string, timeout time.Duration, pre []byte) (net.Conn, string, error) {
	u, _ := url.Parse("http://" + n.ProxyAddr())
	d := &client.Dialer{URL: u, Token: token}
	ctx, cancel := context.WithTimeout(context.Background(), timeout)
	defer cancel()
	c, err := d.Dial(ctx, endpoint)
	if err != nil {
		return nil, "", err
	}
	if len(pre) > 0 {
		_ = c.SetWriteDeadline(time.Now().Add(timeout))
		if _, err := c.Write(pre); err != nil {
			c.Close()
			return nil, "", fmt.Errorf("reading stamp: preamble write: %w", err)
		}
		_ = c.SetWriteDeadline(time.Time{})
	}
	_ = c.SetReadDeadline(time.Now().Add(timeout))
	var line []byte
	one := make([]byte, 1)
	for {
		if _, err := c.Read(one); err != nil {
			c.Close()
			return nil, "", fmt.Errorf("reading stamp: %w", err)
		}
		if one[0] == '\n' {
			break
		}
		line = append(line, one[0])
		if len(line) > 512 {
			c.Close()
			return nil, "", fmt.Errorf("no stamp line")
		}
	}
	if strings.HasPrefix(string(line), "HTTP/") {
		te := &TunnelHTTPError{StatusLine: strings.TrimSpace(string(line))}
		br := bufio.NewReader(c)
		for i := 0; i < 100; i++ {
			h, err := br.ReadString('\n')
			if err != nil || strings.TrimSpace(h) == "" {
				break
			}
			if k, v, ok := strings.Cut(h, ":"); ok && strings.EqualFold(strings.TrimSpace(k), "X-Stamp") {
				te.Stamp = strings.TrimSpace(v)
			}
		}
		c.Close()
		return nil, te.Stamp, te
	}
	_ = c.SetReadDeadline(time.Time{})
	return c, strings.TrimPrefix(string(line), "STAMP "), nil
}

// ---- raw HTTP client ------------------------------------------------------------------

type RawResponse struct {
	Status int
	Header http.Header
	Body   []byte
	Proto  string
	Raw    []byte
}

// RawRequest writes the given bytes to addr and parses one HTTP response.
func RawRequest(addr string, raw []byte, method string, timeout time.Duration) (*RawResponse, error) {
	c, err := net.DialTimeout("tcp", addr, timeout)
	if err != nil {
		return nil, err
	}
	defer c.Close()
	_ = c.SetDeadline(time.Now().Add(timeout))
	if _, err := c.Write(raw); err != nil {
		return nil, err
	}
	br := bufio.NewReader(c)
	resp, err := http.ReadResponse(br, &http.Request{Method: method})
	if err != nil {
		return nil, err
	}
	defer resp.Body.Close()
	body, err := io.ReadAll(resp.Body)
	if err != nil {
		return &RawResponse{Status: resp.StatusCode, Header: resp.Header, Body: body, Proto: resp.Proto}, fmt.Errorf("reading body: %w", err)
	}
	return &RawResponse{Status: resp.StatusCode, Header: resp.Header, Body: body, Proto: resp.Proto}, nil
}

// BuildRequest renders an HTTP/1.1 request with headers in the given order.
func BuildRequest(method, target, host string, headers [][2]string, body []byte, chunked bool) []byte {
	var b bytes.Buffer
	fmt.Fprintf(&b, "%s %s HTTP/1.1\r\n", method, target)
	if host != "" {
		fmt.Fprintf(&b, "Host: %s\r\n", host)
	}
	for _, h := range headers {
		fmt.Fprintf(&b, "%s: %s\r\n", h[0], h[1])
	}
	switch {
	case chunked:
		b.WriteString("Transfer-Encoding: chunked\r\n")
	case body != nil:
		fmt.Fprintf(&b, "Content-Length: %d\r\n", len(body))
	}
	b.WriteString("Connection: close\r\n\r\n")
	if chunked {
		rest := body
		for len(rest) > 0 {
			n := 1 + (len(rest)*7)%1500
			if n > len(rest) {
				n = len(rest)
			}
			fmt.Fprintf(&b, "%x\r\n", n)
			b.Write(rest[:n])
			b.WriteString("\r\n")
			rest = rest[n:]
		}
		b.WriteString("0\r\n\r\n")
	} else {
		b.Write(body)
	}
	return b.Bytes()
}

// Get is a simple GET through a node's proxy port with the given Host and headers.
func Get(addr, host, path string, headers [][2]string, timeout time.Duration) (*RawResponse, error) {
	return RawRequest(addr, BuildRequest("GET", path, host, headers, nil, false), "GET", timeout)
}

// ---- metrics ---------------------------------------------------------------------------

// Metrics scrapes a node's /metrics and returns name{labels} -> value.
func Metrics(n *Node, token string) (map[string]float64, error) {
	var hs [][2]string
	if token != "" {
		hs = append(hs, [2]string{"Authorization", "Bearer " + token})
	}
	resp, err := Get(n.AdminAddr(), n.AdminAddr(), "/metrics", hs, 10*time.Second)
	if err != nil {
		return nil, err
	}
	if resp.Status != 200 {
		return nil, fmt.Errorf("metrics status %d", resp.Status)
	}
	out := map[string]float64{}
	for _, l := range strings.Split(string(resp.Body), "\n") {
		if l == "" || l[0] == '#' {
			continue
		}
		i := strings.LastIndexByte(l, ' ')
		if i < 0 {
			continue
		}
		v, err := strconv.ParseFloat(l[i+1:], 64)
		if err != nil {
			continue
		}
		out[l[:i]] = v
	}
	return out, nil
}

// SumPrefix sums every sample whose name (with labels) starts with prefix.
func SumPrefix(m map[string]float64, prefix string) float64 {
	var t float64
	for k, v := range m {
		if strings.HasPrefix(k, prefix) {
			t += v
		}
	}
	return t
}

func SortedKeys(m map[string]int) []string {
	ks := make([]string, 0, len(m))
	for k := range m {
		ks = append(ks, k)
	}
	sort.Strings(ks)
	return ks
}

func listenLoopback() (net.Listener, error) { return net.Listen("tcp", "127.0.0.1:0") }
