package nodes

import (
	"github.com/andydunstall/piko/server/config"
	"bytes"
	"errors"
	"fmt"
	"github.com/andydunstall/piko/server/cluster"
	"io"
	"math/rand"
	"strings"
	"sync"
	"sync/atomic"
	"time"

	"verif/harness/core"
	"verif/harness/props"
)

// ---- C01: requests reach only upstreams of the addressed endpoint ------------------------

type upHandle struct {
	http   *HTTPUpstream
	tcp    *TCPUpstream
	ep     string
	node   int
	goaway atomic.Bool
	closed atomic.Bool
}

func (h *upHandle) shutdown() {
	if h.http != nil {
		h.http.Shutdown()
	} else {
		h.tcp.Shutdown()
	}
	h.closed.Store(true)
}

func (h *upHandle) goAway() {
	if h.http != nil {
		h.http.GoAway()
	} else {
		h.tcp.GoAway()
	}
	h.goaway.Store(true)
}

type c01cluster struct {
	nodes []*Node
	mu    sync.Mutex
	ups   []*upHandle
	seq   int
	// statistics
	local, forwarded, refused, churn, overlapped atomic.Int64
	inflight                                     atomic.Int64
}

var c01HTTPEps = []string{"h1", "h10", "h1-x", "H1", "h1.v2"}
var c01TCPEps = []string{"t1", "t10"}

func isTCPEp(ep string) bool { return strings.HasPrefix(ep, "t") }

func (c *c01cluster) connect(r *rand.Rand, ep string, node int) error {
	c.mu.Lock()
	c.seq++
	id := fmt.Sprintf("u%d", c.seq)
	c.mu.Unlock()
	h := &upHandle{ep: ep, node: node}
	o := ListenOpts{CancelCtx: r.Intn(2) == 0}
	var err error
	if isTCPEp(ep) {
		h.tcp, err = ListenTCP(c.nodes[node], ep, id, o)
	} else {
		h.http, err = ListenHTTP(c.nodes[node], ep, id, o)
	}
	if err != nil {
		return err
	}
	c.mu.Lock()
	c.ups = append(c.ups, h)
	c.mu.Unlock()
	return nil
}

// truth returns, per endpoint, the number of upstreams that are connected and accepting.
func (c *c01cluster) truth() (perEp map[string]int, perNode []map[string]int) {
	perEp = map[string]int{}
	perNode = make([]map[string]int, len(c.nodes))
	for i := range perNode {
		perNode[i] = map[string]int{}
	}
	c.mu.Lock()
	defer c.mu.Unlock()
	for _, h := range c.ups {
		if h.closed.Load() {
			continue
		}
		perEp[h.ep]++
		perNode[h.node][h.ep]++
	}
	return
}

type c01req struct {
	Entry int    `json:"entry"`
	Ep    string `json:"endpoint"`
	Mode  string `json:"mode"` // host | header | conflict | conflict-listed | tcp
}

// issue performs one request and classifies the outcome.
// served: stamp of the serving upstream ("" if refused); status: HTTP status or 0.
func (c *c01cluster) issue(q c01req, nonce string) (stamp string, status int, err error) {
	return c.issueT(q, nonce, 20*time.Second)
}

func (c *c01cluster) issueT(q c01req, nonce string, tcpTimeout time.Duration) (stamp string, status int, err error) {
	n := c.nodes[q.Entry]
	if q.Mode == "tcp" {
		// the tunnelled protocol is client-speaks-first here, and what the client
		// says happens to be an HTTP request naming ANOTHER endpoint: whoever
		// interprets the tunnel's bytes as HTTP would route them elsewhere
		pre := []byte("GET /c01-tunnel HTTP/1.1\r\nHost: " + c01HTTPEps[0] + ".piko.test\r\nX-Nonce: " + nonce + "\r\n\r\n")
		conn, st, err := DialTCPPre(n, q.Ep, "", tcpTimeout, pre)
		var te *TunnelHTTPError
		if errors.As(err, &te) {
			if te.Stamp != "" {
				return te.Stamp, 200, nil // judged as a delivery: the stamp names the wrong endpoint
			}
			return "", 0, err
		}
		if err == nil {
			// the echo upstream returns the preamble first
			_ = conn.SetReadDeadline(time.Now().Add(20 * time.Second))
			back := make([]byte, len(pre))
			if _, rerr := io.ReadFull(conn, back); rerr == nil && !bytes.Equal(back, pre) {
				conn.Close()
				return st, 200, fmt.Errorf("tunnel echoed %q for the preamble %q", back, pre)
			} else if rerr != nil {
				conn.Close()
				return "", 502, nil // the upstream went away mid-exchange (churn)
			}
		}
		if err != nil {
			if strings.Contains(err.Error(), "reading stamp") && tcpTimeout < 20*time.Second {
				// under churn: the tunnel was opened to an upstream that
				// announced go-away before accepting the stream; a TCP tunnel
				// has no timeout of its own, so this is a refusal, not a hang
				return "", 502, nil
			}
			// handshake refused: the error text carries the status
			for _, code := range []int{502, 504, 400, 401, 404, 500} {
				if strings.Contains(err.Error(), fmt.Sprint(code)) {
					return "", code, nil
				}
			}
			if strings.Contains(err.Error(), "reading stamp") {
				// the upstream vanished between accept and first byte: end of stream
				return "", 502, nil
			}
			return "", 0, err
		}
		defer conn.Close()
		// echo a nonce through the tunnel
		_ = conn.SetDeadline(time.Now().Add(20 * time.Second))
		msg := []byte(nonce + "\n")
		if _, err := conn.Write(msg); err == nil {
			buf := make([]byte, len(msg))
			got := 0
			for got < len(buf) {
				k, err := conn.Read(buf[got:])
				got += k
				if err != nil {
					break
				}
			}
			if got == len(buf) && string(buf) != string(msg) {
				return st, 200, fmt.Errorf("tunnel echoed %q for %q", buf, msg)
			}
		}
		return st, 200, nil
	}
	var host string
	var hs [][2]string
	switch q.Mode {
	case "host":
		host = q.Ep + ".piko.test"
	case "header":
		host = "127.0.0.1"
		hs = append(hs, [2]string{"x-piko-endpoint", q.Ep})
	case "conflict":
		other := c01HTTPEps[(indexOf(c01HTTPEps, q.Ep)+1)%len(c01HTTPEps)]
		host = other + ".piko.test:8000"
		hs = append(hs, [2]string{"X-Piko-Endpoint", q.Ep})
	case "conflict-listed":
		// as "conflict", and the client lists the routing header in Connection
		// (legal HTTP: it asks proxies to drop that header when forwarding)
		other := c01HTTPEps[(indexOf(c01HTTPEps, q.Ep)+1)%len(c01HTTPEps)]
		host = other + ".piko.test"
		hs = append(hs, [2]string{"X-Piko-Endpoint", q.Ep}, [2]string{"Connection", "x-piko-endpoint"})
	}
	hs = append(hs, [2]string{"X-Nonce", nonce})
	resp, err := Get(n.ProxyAddr(), host, "/probe?n="+nonce, hs, 20*time.Second)
	if err != nil {
		return "", 0, err
	}
	st := resp.Header.Get("X-Stamp")
	if st != "" && resp.Header.Get("X-Nonce") != nonce {
		return st, resp.Status, fmt.Errorf("response carries nonce %q for request %q", resp.Header.Get("X-Nonce"), nonce)
	}
	return st, resp.Status, nil
}

func indexOf(l []string, s string) int {
	for i, x := range l {
		if x == s {
			return i
		}
	}
	return 0
}

func stampEndpoint(st string) string {
	if i := strings.IndexByte(st, '|'); i >= 0 {
		return st[:i]
	}
	return st
}

func stampNode(st string) string {
	if i := strings.LastIndexByte(st, '|'); i >= 0 {
		return st[i+1:]
	}
	return ""
}

func modesFor(ep string) []string {
	if isTCPEp(ep) {
		return []string{"tcp"}
	}
	if strings.Contains(ep, ".") {
		// an id with a dot cannot be named by a Host label (the label ends at the dot)
		return []string{"header", "conflict", "conflict-listed"}
	}
	return []string{"host", "header", "conflict", "conflict-listed"}
}

type c01fail struct {
	sig, what string
	q         c01req
}

func runC01Cluster(r *rand.Rand, nNodes, requests, churnOps int, sh *core.Shard) (f *c01fail, inconclusive string) {
	// proxy timeout 2 s: a request whose stream sits in the accept backlog of an
	// upstream that announced go-away is answered 504 after the timeout, well
	// inside the client's 20 s watchdog
	nodes, err := StartCluster(nNodes, func(i int) NodeOpts {
		// non-default access-log header filters (odd nodes an allow list, even nodes a
		// block list naming the routing headers): logging configuration must not
		// change where a request is delivered
		return NodeOpts{ProxyTimeout: 2 * time.Second, GossipInterval: 50 * time.Millisecond, Mutate: func(c *config.Config) {
			if i%2 == 1 {
				c.Proxy.AccessLog.RequestHeaders.AllowList = []string{"User-Agent", "Content-Type"}
			} else {
				c.Proxy.AccessLog.RequestHeaders.BlockList = []string{"X-Piko-Forward", "x-piko-endpoint", "Authorization"}
			}
		}}
	})
	if err != nil {
		return nil, "start cluster: " + err.Error()
	}
	c := &c01cluster{nodes: nodes}
	defer func() {
		c.mu.Lock()
		ups := c.ups
		c.mu.Unlock()
		for _, h := range ups {
			if !h.closed.Load() {
				h.shutdown()
			}
		}
		StopAll(nodes)
	}()
	eps := append(append([]string{}, c01HTTPEps...), c01TCPEps...)
	// what a crashed and a departed node leave behind until they expire: routing
	// entries that are not active but still list every endpoint (at a dead
	// address). They must never be chosen, and must not hide an active holder.
	ghostEps := map[string]int{}
	for _, ep := range eps {
		ghostEps[ep] = 2
	}
	for _, n := range nodes {
		for _, g := range []struct {
			id     string
			status cluster.NodeStatus
		}{{"ghost-unreachable", cluster.NodeStatusUnreachable}, {"ghost-left", cluster.NodeStatusLeft}} {
			ge := map[string]int{}
			for k, v := range ghostEps {
				ge[k] = v
			}
			n.Cluster().AddNode(&cluster.Node{ID: g.id, Status: g.status, ProxyAddr: "127.0.0.1:1", AdminAddr: "127.0.0.1:1", Endpoints: ge})
		}
	}
	for _, ep := range eps {
		for k := r.Intn(4); k > 0; k-- {
			if err := c.connect(r, ep, r.Intn(nNodes)); err != nil {
				return nil, "connect: " + err.Error()
			}
		}
	}
	var failMu sync.Mutex
	var fail *c01fail
	setFail := func(x *c01fail) {
		failMu.Lock()
		if fail == nil {
			fail = x
		}
		failMu.Unlock()
	}
	failed := func() bool { failMu.Lock(); defer failMu.Unlock(); return fail != nil }

	// ---- phase 1: requests under churn
	var wg sync.WaitGroup
	stopChurn := make(chan struct{})
	churnSeed := r.Int63()
	wg.Add(1)
	go func() {
		defer wg.Done()
		cr := rand.New(rand.NewSource(churnSeed))
		for i := 0; i < churnOps; i++ {
			select {
			case <-stopChurn:
				return
			default:
			}
			if c.inflight.Load() > 0 {
				c.overlapped.Add(1)
			}
			c.churn.Add(1)
			switch cr.Intn(4) {
			case 0, 1:
				_ = c.connect(cr, eps[cr.Intn(len(eps))], cr.Intn(nNodes))
			case 2:
				c.mu.Lock()
				var cand []*upHandle
				for _, h := range c.ups {
					if !h.closed.Load() && !h.goaway.Load() {
						cand = append(cand, h)
					}
				}
				if len(cand) > 0 {
					cand[cr.Intn(len(cand))].goAway()
				}
				c.mu.Unlock()
			default:
				c.mu.Lock()
				var cand []*upHandle
				for _, h := range c.ups {
					if !h.closed.Load() {
						cand = append(cand, h)
					}
				}
				var h *upHandle
				if len(cand) > 0 {
					h = cand[cr.Intn(len(cand))]
					h.closed.Store(true)
				}
				c.mu.Unlock()
				if h != nil {
					h.shutdown()
				}
			}
			time.Sleep(time.Duration(cr.Intn(3)) * time.Millisecond)
		}
	}()
	workers := 4
	per := requests / workers
	var nonceSeq atomic.Int64
	for w := 0; w < workers; w++ {
		wg.Add(1)
		seed := r.Int63()
		go func() {
			defer wg.Done()
			wr := rand.New(rand.NewSource(seed))
			for i := 0; i < per && !failed(); i++ {
				ep := eps[wr.Intn(len(eps))]
				ms := modesFor(ep)
				q := c01req{Entry: wr.Intn(nNodes), Ep: ep, Mode: ms[wr.Intn(len(ms))]}
				nonce := fmt.Sprintf("n%d", nonceSeq.Add(1))
				c.inflight.Add(1)
				st, status, err := c.issueT(q, nonce, 4*time.Second)
				c.inflight.Add(-1)
				sh.Count("requests_under_churn", 1)
				switch {
				case err != nil && st == "":
					setFail(&c01fail{"request-error", fmt.Sprintf("%+v under churn: %v", q, err), q})
				case err != nil:
					setFail(&c01fail{"corrupted-exchange", fmt.Sprintf("%+v served by %s: %v", q, st, err), q})
				case st != "":
					if stampEndpoint(st) != q.Ep {
						setFail(&c01fail{"wrong-endpoint", fmt.Sprintf("request %+v addressed to endpoint %q was delivered to upstream %s of endpoint %q", q, q.Ep, st, stampEndpoint(st)), q})
					}
					if stampNode(st) == c.nodes[q.Entry].ID {
						c.local.Add(1)
					} else {
						c.forwarded.Add(1)
					}
				case status == 502 || status == 504:
					c.refused.Add(1)
				default:
					setFail(&c01fail{"non-gateway-status", fmt.Sprintf("request %+v under churn got status %d without reaching an upstream (only 502/504 are gateway refusals)", q, status), q})
				}
			}
		}()
	}
	wg.Wait()
	close(stopChurn)
	if fail != nil {
		return fail, ""
	}
	// ---- phase 2: settle, then probe everything
	// one HTTP and one TCP endpoint lose all their upstreams, so that "nobody
	// serves it => 502" is probed in every cluster however the churn ended
	gone := map[string]bool{c01HTTPEps[r.Intn(len(c01HTTPEps))]: true, c01TCPEps[r.Intn(len(c01TCPEps))]: true}
	c.mu.Lock()
	for _, h := range c.ups {
		if (h.goaway.Load() || gone[h.ep]) && !h.closed.Load() {
			h.closed.Store(true)
			go h.shutdown()
		}
	}
	c.mu.Unlock()
	perEp, perNode := c.truth()
	ok := core.WaitUntil(30*time.Second, 5*time.Millisecond, func() bool {
		for i, n := range nodes {
			if !sameEps(n.Cluster().LocalNode().Endpoints, perNode[i]) {
				return false
			}
		}
		s, _ := Settled(nodes)
		return s
	})
	if !ok {
		_, why := Settled(nodes)
		for i, n := range nodes {
			if !sameEps(n.Cluster().LocalNode().Endpoints, perNode[i]) {
				why = fmt.Sprintf("%s registers %v, harness holds %v open", n.ID, n.Cluster().LocalNode().Endpoints, perNode[i])
			}
		}
		return nil, "routing did not settle within 30 s: " + why
	}
	for entry := range nodes {
		for _, ep := range eps {
			for _, mode := range modesFor(ep) {
				q := c01req{Entry: entry, Ep: ep, Mode: mode}
				st, status, err := c.issue(q, fmt.Sprintf("p%d", nonceSeq.Add(1)))
				for try := 0; try < 3 && err == nil && ((perEp[ep] > 0) != (st != "")); try++ {
					// unexpected outcome: only believed if routing was settled
					// before and is still settled (a node falsely suspected
					// under load is legitimately skipped by routing)
					if ok, _ := Settled(nodes); ok && try > 0 {
						break
					}
					sh.Count("probe_retries_after_unsettled_routing", 1)
					if ok, why := WaitSettled(nodes, 30*time.Second); !ok {
						return nil, "routing did not settle again: " + why
					}
					st, status, err = c.issue(q, fmt.Sprintf("p%d", nonceSeq.Add(1)))
				}
				sh.Count("settled_probes", 1)
				switch {
				case err != nil:
					return &c01fail{"request-error", fmt.Sprintf("settled probe %+v: %v (stamp %q)", q, err, st), q}, ""
				case perEp[ep] > 0:
					if st == "" {
						return &c01fail{"settled-unavailable", fmt.Sprintf("routing has settled and %d upstreams serve %q (%v) but %+v got status %d", perEp[ep], ep, perNode, q, status), q}, ""
					}
					if stampEndpoint(st) != ep {
						return &c01fail{"wrong-endpoint", fmt.Sprintf("settled probe %+v was delivered to upstream %s", q, st), q}, ""
					}
					sh.Count("settled_served", 1)
					if stampNode(st) != nodes[entry].ID {
						sh.Count("settled_served_via_other_node", 1)
					}
				default:
					if st != "" || status != 502 {
						return &c01fail{"settled-fabricated", fmt.Sprintf("no upstream serves %q anywhere but %+v got status %d stamp %q (want 502)", ep, q, status, st), q}, ""
					}
					sh.Count("settled_502", 1)
				}
			}
		}
	}
	sh.Count("responses_local", c.local.Load())
	sh.Count("responses_forwarded", c.forwarded.Load())
	sh.Count("refused_under_churn", c.refused.Load())
	sh.Count("churn_events", c.churn.Load())
	sh.Count("churn_events_overlapping_a_request", c.overlapped.Load())
	if c.local.Load() > 0 && (c.forwarded.Load() > 0 || nNodes == 1) && c.overlapped.Load() > 0 {
		sh.Nontrivial(core.Hash(nNodes, c.local.Load(), c.forwarded.Load(), c.refused.Load(), c.churn.Load(), fmt.Sprint(perNode)))
	}
	return nil, ""
}

// runC01GoAwayRemote: the entry node's only local upstream of an endpoint has
// announced go-away (still connected, not accepting) while another node serves
// the endpoint. Every request for it through the entry node - HTTP, and TCP
// tunnels whose client speaks first with bytes that look like an HTTP request
// for another endpoint - is served by an upstream of THAT endpoint or refused.
func runC01GoAwayRemote(sh *core.Shard) (f *c01fail, inconclusive string) {
	nodes, err := StartCluster(2, func(int) NodeOpts {
		return NodeOpts{ProxyTimeout: 2 * time.Second, GossipInterval: 100 * time.Millisecond}
	})
	if err != nil {
		return nil, "start cluster: " + err.Error()
	}
	defer StopAll(nodes)
	ta, err1 := ListenTCP(nodes[0], "tg", "tg-a", ListenOpts{})
	tb, err2 := ListenTCP(nodes[1], "tg", "tg-b", ListenOpts{})
	ha, err3 := ListenHTTP(nodes[0], "hg", "hg-a", ListenOpts{})
	hb, err4 := ListenHTTP(nodes[1], "hg", "hg-b", ListenOpts{})
	hx, err5 := ListenHTTP(nodes[1], "hx", "hx-b", ListenOpts{})
	for _, e := range []error{err1, err2, err3, err4, err5} {
		if e != nil {
			return nil, "listen: " + e.Error()
		}
	}
	defer func() { ta.Shutdown(); tb.Shutdown(); ha.Shutdown(); hb.Shutdown(); hx.Shutdown() }()
	want := []map[string]int{{"tg": 1, "hg": 1}, {"tg": 1, "hg": 1, "hx": 1}}
	settled := func() bool {
		for i, n := range nodes {
			if !sameEps(n.Cluster().LocalNode().Endpoints, want[i]) {
				return false
			}
		}
		s, _ := Settled(nodes)
		return s
	}
	if !core.WaitUntil(30*time.Second, 5*time.Millisecond, settled) {
		return nil, "go-away scenario: routing did not settle"
	}
	ta.GoAway()
	ha.GoAway()
	pre := []byte("GET /c01-tunnel HTTP/1.1\r\nHost: hx.piko.test\r\nX-Nonce: g\r\n\r\n")
	for i := 0; i < 4; i++ {
		q := c01req{Entry: 0, Ep: "tg", Mode: "tcp"}
		conn, st, err := DialTCPPre(nodes[0], "tg", "", 6*time.Second, pre)
		sh.Count("goaway_then_remote_requests", 1)
		var te *TunnelHTTPError
		switch {
		case errors.As(err, &te):
			return &c01fail{"wrong-endpoint", fmt.Sprintf("TCP connection addressed to endpoint \"tg\" through a node whose only local upstream of it had announced go-away (another node serves it): %v", err), q}, ""
		case err == nil:
			conn.Close()
			if stampEndpoint(st) != "tg" {
				return &c01fail{"wrong-endpoint", fmt.Sprintf("TCP connection addressed to \"tg\" after a local go-away was delivered to upstream %s", st), q}, ""
			}
			sh.Count("goaway_then_remote_served", 1)
		}
		q = c01req{Entry: 0, Ep: "hg", Mode: "host"}
		resp, err := Get(nodes[0].ProxyAddr(), "hg.piko.test", "/probe", [][2]string{{"X-Nonce", "g"}}, 20*time.Second)
		sh.Count("goaway_then_remote_requests", 1)
		if err != nil {
			return nil, "go-away scenario: " + err.Error()
		}
		if st := resp.Header.Get("X-Stamp"); st != "" {
			if stampEndpoint(st) != "hg" {
				return &c01fail{"wrong-endpoint", fmt.Sprintf("request addressed to \"hg\" after a local go-away was delivered to upstream %s", st), q}, ""
			}
			sh.Count("goaway_then_remote_served", 1)
		} else if resp.Status != 502 && resp.Status != 504 {
			return &c01fail{"non-gateway-status", fmt.Sprintf("request addressed to \"hg\" after a local go-away got status %d without reaching an upstream", resp.Status), q}, ""
		}
	}
	return nil, ""
}

func runC01(sh *core.Shard, a props.Args) {
	if a.Shard%4 == 1 {
		fmt.Printf("CASE C01 go-away then remote\n")
		f, inc := runC01GoAwayRemote(sh)
		if inc != "" {
			f, inc = runC01GoAwayRemote(sh)
		}
		sh.Eval()
		if inc != "" {
			sh.Inconcl("%s", inc)
		} else if f != nil {
			sh.Violate(f.sig, f.what, map[string]any{"scenario": "goaway-then-remote", "request": f.q})
			return
		}
	}
	clusters := a.Pick(16, 160)
	for i := 0; i < clusters; i++ {
		if !a.Mine(i) {
			continue
		}
		r := rand.New(rand.NewSource(a.CaseSeed(i)))
		n := 1 + i%4
		reqs := a.Pick(240, 1600)
		churn := a.Pick(60, 400)
		fmt.Printf("CASE C01 cluster=%d nodes=%d requests=%d churn=%d seed=%d\n", i, n, reqs, churn, a.CaseSeed(i))
		f, inc := runC01Cluster(r, n, reqs, churn, sh)
		if inc != "" {
			fmt.Printf("RETRY C01 cluster %d after inconclusive: %s\n", i, inc)
			sh.Count("clusters_retried_after_inconclusive", 1)
			f, inc = runC01Cluster(rand.New(rand.NewSource(a.CaseSeed(i)+1)), n, reqs, churn, sh)
		}
		sh.Eval()
		if inc != "" {
			sh.Inconcl("cluster %d: %s", i, inc)
			continue
		}
		if i < 2 {
			sh.Sample(map[string]any{"cluster": i, "nodes": n, "requests": reqs, "churn_ops": churn, "endpoints": append(append([]string{}, c01HTTPEps...), c01TCPEps...)})
		}
		if f != nil {
			sh.Violate(f.sig, f.what, map[string]any{"cluster": i, "nodes": n, "case_seed": a.CaseSeed(i), "request": f.q})
		}
	}
}

func init() {
	props.Register(&props.Prop{
		ID: "C01", Level: "exploration", Race: true, Parallel: 8,
		Rule: "clusters of 1-4 real in-process nodes joined by gossip; 7 endpoints with near-miss ids (h1, h10, h1-x, H1 and the dotted h1.v2 served over HTTP; t1, t10 over the TCP route) each with 0-3 upstreams on seeded nodes; every routing table also holds an unreachable and a left ghost node that list every endpoint at a dead address (what a crashed / departed node leaves behind until it expires); every upstream stamps its responses/streams with (endpoint, upstream id, node) and echoes a request nonce. Phase 1: 4 request goroutines address random (entry node, endpoint, mode in {first Host label, x-piko-endpoint, conflicting Host+header, the same with the header also listed in Connection, /_piko/v1/tcp}) while a churn goroutine connects, go-aways and disconnects upstreams; every outcome must be {stamp.endpoint == addressed endpoint with the right nonce} or {502, 504}. TCP tunnels are client-speaks-first with a preamble that looks like an HTTP request for another endpoint (an HTTP answer inside a tunnel is a misdelivery). Scenario go-away-then-remote: the entry node's only local upstream announced go-away while another node serves the endpoint; HTTP requests and TCP tunnels are served by that endpoint or refused. Phase 2: churn stops, 'settled' is decided logically (every node's registry equals the harness's open connections and every node's routing table mirrors every other node's own state; 30 s watchdog => inconclusive) and every (entry node, endpoint, mode) is probed: 200 with a stamp of that endpoint iff some upstream exists anywhere, else 502. Non-trivial cluster = saw locally served and forwarded responses and churn events overlapping in-flight requests; distinct = hash of (size, outcome counts, final placement).",
		Assumptions: []string{
			"listeners are created both with a background context and, like the agent, with a connect-timeout context cancelled after connecting",
			"interleavings of churn and requests are sampled by repetition, not enumerated",
		},
		RequireCounters: []string{"responses_local", "responses_forwarded", "settled_served", "settled_served_via_other_node", "settled_502", "churn_events_overlapping_a_request", "goaway_then_remote_requests", "goaway_then_remote_served"},
		Shards:          func(tier string) int { return 16 },
		Run:             runC01,
	})
}
