package nodes

import (
	"bytes"
	"context"
	"encoding/binary"
	"errors"
	"fmt"
	"io"
	"math/rand"
	"net"
	"net/http"
	"net/url"
	"os"
	"runtime"
	"strings"
	"sync"
	"sync/atomic"
	"time"

	"github.com/gorilla/websocket"

	agentconfig "github.com/andydunstall/piko/agent/config"
	"github.com/andydunstall/piko/agent/tcpproxy"
	"github.com/andydunstall/piko/client"
	"github.com/andydunstall/piko/forward"
	"github.com/andydunstall/piko/pkg/log"
	pikowebsocket "github.com/andydunstall/piko/pkg/websocket"

	"verif/harness/core"
	"verif/harness/props"
)

// ---- C07: tunnelled connections are faithful byte streams with close propagation ----------

// acceptHub routes accepted connections (the far end of a tunnel) to the test
// case that opened them: the opener writes an 8-byte id first.
type acceptHub struct {
	mu      sync.Mutex
	waiting map[uint64]chan net.Conn
	stray   atomic.Int64
}

func newAcceptHub() *acceptHub { return &acceptHub{waiting: map[uint64]chan net.Conn{}} }

func (h *acceptHub) expect(id uint64) chan net.Conn {
	ch := make(chan net.Conn, 1)
	h.mu.Lock()
	h.waiting[id] = ch
	h.mu.Unlock()
	return ch
}

func (h *acceptHub) serve(ln net.Listener) {
	for {
		c, err := ln.Accept()
		if err != nil {
			return
		}
		go func() {
			var hdr [8]byte
			_ = c.SetReadDeadline(time.Now().Add(30 * time.Second))
			if _, err := io.ReadFull(c, hdr[:]); err != nil {
				c.Close()
				return
			}
			_ = c.SetReadDeadline(time.Time{})
			id := binary.BigEndian.Uint64(hdr[:])
			h.mu.Lock()
			ch := h.waiting[id]
			delete(h.waiting, id)
			h.mu.Unlock()
			if ch == nil {
				h.stray.Add(1)
				c.Close()
				return
			}
			ch <- c
		}()
	}
}

type c07path struct {
	name string
	open func(id uint64) (net.Conn, error) // near end (after the id preamble was written)
	hub  *acceptHub
}

type c07rig struct {
	nodes   []*Node
	paths   []*c07path
	closers []func()
}

func newC07Rig() (*c07rig, error) {
	// 100 ms gossip interval: the failure detector then needs a ~2 s stall to
	// suspect a peer, which a loaded machine does not produce by accident
	nodes, err := StartCluster(2, func(int) NodeOpts { return NodeOpts{GossipInterval: 100 * time.Millisecond} })
	if err != nil {
		return nil, err
	}
	rg := &c07rig{nodes: nodes}
	dialVia := func(n *Node, ep string) func(uint64) (net.Conn, error) {
		return func(id uint64) (net.Conn, error) {
			u, _ := url.Parse("http://" + n.ProxyAddr())
			d := &client.Dialer{URL: u}
			ctx, cancel := context.WithTimeout(context.Background(), 20*time.Second)
			defer cancel()
			return d.Dial(ctx, ep)
		}
	}
	pikoListen := func(n *Node, ep string) (client.Listener, error) {
		u, _ := url.Parse("http://" + n.UpstreamAddr())
		up := &client.Upstream{URL: u}
		return up.Listen(context.Background(), ep)
	}
	plainServer := func(hub *acceptHub) (string, error) {
		ln, err := net.Listen("tcp", "127.0.0.1:0")
		if err != nil {
			return "", err
		}
		go hub.serve(ln)
		rg.closers = append(rg.closers, func() { ln.Close() })
		return ln.Addr().String(), nil
	}
	// P1/P2: dialer -> node -> (node) -> upstream listener
	{
		hub := newAcceptHub()
		ln, err := pikoListen(nodes[0], "c07-listener")
		if err != nil {
			return nil, err
		}
		go hub.serve(ln)
		rg.paths = append(rg.paths,
			&c07path{"dialer->node->listener", dialVia(nodes[0], "c07-listener"), hub},
			&c07path{"dialer->node->node->listener", dialVia(nodes[1], "c07-listener"), hub})
		// P3: plain TCP -> forward.Forwarder -> node1 -> node0 -> listener
		u, _ := url.Parse("http://" + nodes[1].ProxyAddr())
		fw := forward.NewForwarder("c07-listener", &client.Dialer{URL: u}, log.NewNopLogger())
		fln, err := net.Listen("tcp", "127.0.0.1:0")
		if err != nil {
			return nil, err
		}
		go func() { _ = fw.Forward(fln) }()
		rg.closers = append(rg.closers, func() { fw.Close() })
		faddr := fln.Addr().String()
		rg.paths = append(rg.paths, &c07path{"tcp->forward proxy->node->node->listener", func(uint64) (net.Conn, error) {
			return net.DialTimeout("tcp", faddr, 10*time.Second)
		}, hub})
	}
	// P4: dialer -> node -> client.Forwarder -> plain TCP server
	{
		hub := newAcceptHub()
		addr, err := plainServer(hub)
		if err != nil {
			return nil, err
		}
		u, _ := url.Parse("http://" + nodes[0].UpstreamAddr())
		up := &client.Upstream{URL: u}
		f, err := up.ListenAndForward(context.Background(), "c07-clientfwd", addr)
		if err != nil {
			return nil, err
		}
		rg.closers = append(rg.closers, func() { f.Close() })
		rg.paths = append(rg.paths, &c07path{"dialer->node->node->client forwarder->tcp", dialVia(nodes[1], "c07-clientfwd"), hub})
	}
	// P5: dialer -> node -> agent tcpproxy -> plain TCP server
	{
		hub := newAcceptHub()
		addr, err := plainServer(hub)
		if err != nil {
			return nil, err
		}
		ln, err := pikoListen(nodes[1], "c07-agent")
		if err != nil {
			return nil, err
		}
		srv := tcpproxy.NewServer(agentconfig.ListenerConfig{EndpointID: "c07-agent", Addr: addr, Protocol: agentconfig.ListenerProtocolTCP, Timeout: 10 * time.Second}, log.NewNopLogger())
		go func() { _ = srv.Serve(ln) }()
		rg.closers = append(rg.closers, func() { srv.Close() })
		rg.paths = append(rg.paths, &c07path{"dialer->node->agent tcp proxy->tcp", dialVia(nodes[1], "c07-agent"), hub})
	}
	// P6: the WebSocket adapter alone
	{
		hub := newAcceptHub()
		upg := &websocket.Upgrader{}
		ln, err := net.Listen("tcp", "127.0.0.1:0")
		if err != nil {
			return nil, err
		}
		conns := make(chan net.Conn, 64)
		hs := &http.Server{Handler: http.HandlerFunc(func(w http.ResponseWriter, r *http.Request) {
			ws, err := upg.Upgrade(w, r, nil)
			if err != nil {
				return
			}
			conns <- pikowebsocket.New(ws)
		})}
		go func() { _ = hs.Serve(ln) }()
		go hub.serve(&chanListener{ch: conns, addr: ln.Addr()})
		rg.closers = append(rg.closers, func() { hs.Close() })
		wsURL := "ws://" + ln.Addr().String() + "/"
		rg.paths = append(rg.paths, &c07path{"websocket adapter pair", func(uint64) (net.Conn, error) {
			ctx, cancel := context.WithTimeout(context.Background(), 10*time.Second)
			defer cancel()
			return pikowebsocket.Dial(ctx, wsURL)
		}, hub})
	}
	// let the endpoints register (Listen returns before the server has added the
	// upstream) and propagate
	if !core.WaitUntil(20*time.Second, 5*time.Millisecond, func() bool {
		e0, e1 := nodes[0].Cluster().LocalNode().Endpoints, nodes[1].Cluster().LocalNode().Endpoints
		return e0["c07-listener"] == 1 && e0["c07-clientfwd"] == 1 && e1["c07-agent"] == 1
	}) {
		return nil, fmt.Errorf("upstream listeners did not register")
	}
	if ok, why := WaitSettled(nodes, 20*time.Second); !ok {
		return nil, fmt.Errorf("cluster did not settle: %s", why)
	}
	return rg, nil
}

type chanListener struct {
	ch   chan net.Conn
	addr net.Addr
}

func (l *chanListener) Accept() (net.Conn, error) {
	c, ok := <-l.ch
	if !ok {
		return nil, net.ErrClosed
	}
	return c, nil
}
func (l *chanListener) Close() error   { return nil }
func (l *chanListener) Addr() net.Addr { return l.addr }

func (rg *c07rig) close() {
	for _, f := range rg.closers {
		f()
	}
	StopAll(rg.nodes)
}

type c07case struct {
	Path      string `json:"path"`
	Seed      int64  `json:"seed"`
	LenAB     int    `json:"bytes_near_to_far"`
	LenBA     int    `json:"bytes_far_to_near"`
	Closer    string `json:"closer"` // near | far
	MaxWrite  int    `json:"max_write"`
	MaxRead   int    `json:"max_read"`
	ZeroWrite bool   `json:"zero_length_writes"`
}

var c07Sizes = []int{0, 1, 2, 100, 4095, 4096, 4097, 8192, 65535, 70000, 262144, 262145, 300000, 600000}

func isEOS(err error) bool {
	if err == nil {
		return false
	}
	if errors.Is(err, io.EOF) || errors.Is(err, net.ErrClosed) || errors.Is(err, io.ErrClosedPipe) {
		return true
	}
	var ne net.Error
	if errors.As(err, &ne) && ne.Timeout() {
		return false
	}
	if errors.Is(err, os.ErrDeadlineExceeded) {
		return false
	}
	s := err.Error()
	return strings.Contains(s, "closed") || strings.Contains(s, "reset by peer") || strings.Contains(s, "broken pipe") || strings.Contains(s, "EOF")
}

// pump writes data to c in seeded chunks.
func pump(c net.Conn, data []byte, r *rand.Rand, maxWrite int, zero bool) error {
	rest := data
	for len(rest) > 0 {
		if zero && r.Intn(6) == 0 {
			if _, err := c.Write(nil); err != nil {
				return fmt.Errorf("zero-length write: %w", err)
			}
			continue
		}
		n := 1 + r.Intn(maxWrite)
		switch {
		case maxWrite >= 1<<20 && r.Intn(2) == 0:
			n = maxWrite // one huge Write: a single WebSocket message of everything that is left
		case r.Intn(4) == 0:
			n = 1 + r.Intn(8)
		}
		if n > len(rest) {
			n = len(rest)
		}
		k, err := c.Write(rest[:n])
		if err != nil {
			return err
		}
		if k != n {
			return fmt.Errorf("short write: wrote %d of %d bytes without an error", k, n)
		}
		rest = rest[n:]
	}
	// no trailing empty message: an empty WebSocket message that the peer has
	// not read when it closes is unread data at the TCP level, and closing a
	// socket with unread data resets the connection (plain TCP semantics; a
	// zero-length write on plain TCP sends nothing), which is not what this
	// property is about.
	return nil
}

// drain reads from c, comparing incrementally with want; when untilEOS it keeps
// reading until end-of-stream, otherwise it stops after len(want) bytes.
func drain(c net.Conn, want []byte, r *rand.Rand, maxRead int, untilEOS bool, watchdog time.Duration) (got int, err error) {
	buf := make([]byte, maxRead)
	for {
		if !untilEOS && got == len(want) {
			return got, nil
		}
		n := 1 + r.Intn(maxRead)
		_ = c.SetReadDeadline(time.Now().Add(watchdog))
		k, rerr := c.Read(buf[:n])
		if k > 0 {
			if got+k > len(want) {
				return got, fmt.Errorf("received %d bytes beyond the %d that were written (duplication or fabrication); extra starts %q", got+k-len(want), len(want), clipBytes(buf[:k]))
			}
			if !bytes.Equal(buf[:k], want[got:got+k]) {
				off := 0
				for off < k && buf[off] == want[got+off] {
					off++
				}
				return got, fmt.Errorf("byte %d differs: got %#x want %#x (loss, reordering or corruption)", got+off, buf[off], want[got+off])
			}
			got += k
		}
		if rerr != nil {
			if isEOS(rerr) {
				if got != len(want) {
					return got, fmt.Errorf("end of stream after %d of %d bytes (%v)", got, len(want), rerr)
				}
				return got, nil
			}
			return got, fmt.Errorf("read: %w", rerr)
		}
	}
}

func clipBytes(b []byte) []byte {
	if len(b) > 16 {
		return b[:16]
	}
	return b
}

var c07ID atomic.Uint64

func runC07Case(rg *c07rig, p *c07path, c c07case) (sig, what string) {
	r := rand.New(rand.NewSource(c.Seed))
	ab := make([]byte, c.LenAB)
	ba := make([]byte, c.LenBA)
	r.Read(ab)
	r.Read(ba)
	id := c07ID.Add(1)<<8 | uint64(os.Getpid()&0xff)
	far := p.hub.expect(id)
	near, err := p.open(id)
	if err != nil {
		return "open-failed", fmt.Sprintf("%s: opening the tunnel failed: %v", p.name, err)
	}
	defer near.Close()
	var hdr [8]byte
	binary.BigEndian.PutUint64(hdr[:], id)
	if _, err := near.Write(hdr[:]); err != nil {
		return "open-failed", fmt.Sprintf("%s: writing the preamble failed: %v", p.name, err)
	}
	var farC net.Conn
	select {
	case farC = <-far:
	case <-time.After(20 * time.Second):
		return "open-failed", fmt.Sprintf("%s: the far end never saw the connection", p.name)
	}
	defer farC.Close()

	const watchdog = 30 * time.Second
	type res struct {
		who string
		err error
	}
	results := make(chan res, 4)
	seeds := []int64{r.Int63(), r.Int63(), r.Int63(), r.Int63()}
	closerNear := c.Closer == "near"
	var wg sync.WaitGroup
	wg.Add(2)
	go func() {
		defer wg.Done()
		results <- res{"near writer", pump(near, ab, rand.New(rand.NewSource(seeds[0])), c.MaxWrite, c.ZeroWrite)}
	}()
	go func() {
		defer wg.Done()
		results <- res{"far writer", pump(farC, ba, rand.New(rand.NewSource(seeds[1])), c.MaxWrite, c.ZeroWrite)}
	}()
	// the closer reads exactly what is addressed to it, then (after its writer finished) closes;
	// the other side reads until end of stream.
	closerDone := make(chan struct{})
	go func() {
		var err error
		if closerNear {
			_, err = drain(near, ba, rand.New(rand.NewSource(seeds[2])), c.MaxRead, false, watchdog)
		} else {
			_, err = drain(farC, ab, rand.New(rand.NewSource(seeds[2])), c.MaxRead, false, watchdog)
		}
		results <- res{c.Closer + " reader", err}
		wg.Wait() // both writers done
		if closerNear {
			near.Close()
		} else {
			farC.Close()
		}
		close(closerDone)
	}()
	go func() {
		var err error
		var got int
		who := "far"
		if closerNear {
			got, err = drain(farC, ab, rand.New(rand.NewSource(seeds[3])), c.MaxRead, true, watchdog)
		} else {
			who = "near"
			got, err = drain(near, ba, rand.New(rand.NewSource(seeds[3])), c.MaxRead, true, watchdog)
		}
		if err != nil {
			var ne net.Error
			if errors.As(err, &ne) && ne.Timeout() || errors.Is(err, os.ErrDeadlineExceeded) {
				select {
				case <-closerDone:
					err = fmt.Errorf("close-not-propagated: the %s end closed but the %s end saw no end-of-stream within %s (received %d bytes): %v", c.Closer, who, watchdog, got, err)
				default:
				}
			}
		}
		results <- res{who + " reader (until end of stream)", err}
	}()
	for i := 0; i < 4; i++ {
		select {
		case x := <-results:
			if x.err != nil {
				sig := "stream-corrupted"
				if strings.Contains(x.err.Error(), "close-not-propagated") {
					sig = "close-not-propagated"
				} else if strings.Contains(x.err.Error(), "short write") {
					sig = "short-write"
				} else if strings.Contains(x.err.Error(), "end of stream after") {
					sig = "premature-end-of-stream"
				}
				return sig, fmt.Sprintf("%s %+v: %s: %v", p.name, c, x.who, x.err)
			}
		case <-time.After(watchdog + 15*time.Second):
			return "stalled", fmt.Sprintf("%s %+v: the exchange did not complete", p.name, c)
		}
	}
	return "", ""
}

func proxyInFlight(nodes []*Node) float64 {
	var t float64
	for _, n := range nodes {
		m, err := Metrics(n, "")
		if err != nil {
			return -1
		}
		t += m["piko_proxy_requests_in_flight"]
	}
	return t
}

func runC07(sh *core.Shard, a props.Args) {
	rg, err := newC07Rig()
	if err != nil {
		sh.Inconcl("C07 rig: %v", err)
		return
	}
	defer rg.close()
	// warm-up: one small connection per path, then take the resource baseline
	for _, p := range rg.paths {
		if sig, what := runC07Case(rg, p, c07case{Path: p.name, Seed: 1, LenAB: 10, LenBA: 10, Closer: "near", MaxWrite: 8, MaxRead: 8}); sig != "" {
			sh.Violate(sig, "warm-up: "+what, nil)
			return
		}
	}
	settle := func() (int, float64) {
		var fl float64
		core.WaitUntil(10*time.Second, 20*time.Millisecond, func() bool {
			fl = proxyInFlight(rg.nodes)
			return fl == 0
		})
		time.Sleep(50 * time.Millisecond)
		return runtime.NumGoroutine(), fl
	}
	baseG, _ := settle()
	total := a.Pick(640, 24000)
	batch := 20
	done := 0
	for i := 0; i < total; i++ {
		if !a.Mine(i) {
			continue
		}
		seed := a.CaseSeed(i)
		r := rand.New(rand.NewSource(seed))
		p := rg.paths[i/16%len(rg.paths)]
		c := c07case{Path: p.name, Seed: seed,
			LenAB: c07Sizes[r.Intn(len(c07Sizes))], LenBA: c07Sizes[r.Intn(len(c07Sizes))],
			Closer:   []string{"near", "far"}[r.Intn(2)],
			MaxWrite: []int{1, 7, 512, 4096, 5000, 70000, 1 << 20, 1 << 20}[r.Intn(8)],
			MaxRead:  []int{1, 3, 100, 4096, 65536}[r.Intn(5)], ZeroWrite: r.Intn(3) == 0}
		if a.Thorough() && r.Intn(20) == 0 {
			c.LenAB = 1 << 22
		}
		// keep the number of WebSocket messages per connection bounded (a 4 MiB
		// stream in 7-byte messages is a million round trips through the race build)
		switch total := c.LenAB + c.LenBA; {
		case total > 1<<20 && c.MaxWrite < 5000:
			c.MaxWrite = 5000
		case total > 100000 && c.MaxWrite <= 7:
			c.MaxWrite = 512
		case total > 20000 && c.MaxWrite == 1:
			c.MaxWrite = 64
		}
		if c.MaxRead <= 3 && c.LenAB+c.LenBA > 20000 {
			c.MaxRead = 97
		}
		if done%50 == 0 {
			fmt.Printf("CASE C07 %d %+v\n", i, c)
		}
		sig, what := runC07Case(rg, p, c)
		for try := 0; sig == "open-failed" && try < 3; try++ {
			// a 502 while a node is (falsely) suspected under load is legitimate
			// routing behaviour, not a tunnel defect: wait until the routing
			// tables mirror each other again and retry
			if ok, _ := Settled(rg.nodes); ok && try > 0 {
				break
			}
			sh.Count("retries_after_unsettled_routing", 1)
			if ok, why := WaitSettled(rg.nodes, 30*time.Second); !ok {
				sh.Inconcl("routing did not settle again: %s", why)
				break
			}
			sig, what = runC07Case(rg, p, c)
		}
		sh.Eval()
		done++
		sh.Count("connections", 1)
		sh.Count("bytes_checked", int64(c.LenAB+c.LenBA))
		sh.Count("closed_by_"+c.Closer+"_end", 1)
		sh.Count("path: "+p.name, 1)
		if c.ZeroWrite {
			sh.Count("connections_with_zero_length_writes", 1)
		}
		if done <= 2 {
			sh.Sample(c)
		}
		if sig != "" {
			sh.Violate(sig, what, c)
			return
		}
		if c.LenAB > 0 && c.LenBA > 0 {
			sh.Nontrivial(core.Hash(p.name, c.LenAB, c.LenBA, c.Closer, c.MaxWrite, c.MaxRead, c.ZeroWrite))
		}
		if done%batch == 0 {
			g, fl := settle()
			sh.Count("release_checks", 1)
			if fl != 0 {
				sh.Violate("legs-not-released", fmt.Sprintf("after %d connections were closed on both ends %v proxy requests are still in flight on the nodes", done, fl), c)
				return
			}
			if g > baseG+4 {
				// give it a longer chance, then judge
				core.WaitUntil(10*time.Second, 100*time.Millisecond, func() bool { return runtime.NumGoroutine() <= baseG+4 })
				if g = runtime.NumGoroutine(); g > baseG+4 {
					sh.Violate("goroutine-leak", fmt.Sprintf("after %d connections were closed on both ends the process runs %d goroutines, %d more than after warm-up (legs not released)", done, g, g-baseG), c)
					return
				}
			}
		}
	}
	for _, p := range rg.paths {
		if n := p.hub.stray.Load(); n > 0 {
			sh.Note("%d stray accepts on %s", n, p.name)
		}
	}
}

func init() {
	props.Register(&props.Prop{
		ID: "C07", Level: "exploration", Race: true, Parallel: 8,
		Rule: "a 2-node real cluster and six tunnel paths: client.Dialer -> node -> upstream listener; the same across two nodes; plain TCP -> forward.Forwarder -> node -> node -> listener; Dialer -> node -> node -> client.Forwarder -> plain TCP; Dialer -> node -> agent/tcpproxy -> plain TCP; and a bare pkg/websocket.Conn pair. Per connection two seeded random byte streams (0 B ... 300 KB, thorough 4 MiB) are written concurrently in both directions with seeded chunk sizes (1 B, <=8 B, up to 70 000 B, or one single Write of the whole stream (up to 600 KB in one WebSocket message), optional zero-length writes = empty WebSocket messages) and read with seeded buffer sizes (1 B ... 64 KiB); each reader compares incrementally with what the other end wrote (loss, duplication, reordering, corruption, short writes all fail). A seeded end closes once it has read everything addressed to it and finished writing; the other end must receive every byte and then end-of-stream (EOF / closed, not a timeout) within the watchdog. After every batch of 20 connections the nodes' proxy in-flight gauges must be 0 and the goroutine count back to the post-warm-up level (+4 slack). Non-trivial = both directions carried data; distinct = hash of (path, sizes, closer, chunking).",
		Assumptions: []string{
			"connections within a shard are sequential (concurrent tunnels over one session are exercised by C20 and C01)",
			"the closing end closes only after it has drained its direction (WebSocket tunnels have no half-close)",
		},
		RequireCounters: []string{"connections", "closed_by_near_end", "closed_by_far_end", "connections_with_zero_length_writes", "release_checks"},
		BoundedTime:     false,
		Shards:          func(string) int { return 16 },
		Run:             runC07,
	})
}
