package nodes

import (
	"fmt"
	"github.com/andydunstall/piko/server/config"
	"math/rand"
	"strings"
	"time"

	"github.com/andydunstall/piko/server/cluster"

	"verif/harness/core"
	"verif/harness/props"
)

// ---- C06: at most one inter-node hop; local upstreams preferred ---------------------------
//
// Stand-alone nodes (never joined by gossip) are given arbitrary beliefs through
// the public routing-table mutators. For every placement mask m there is a pair
// of endpoints hp<m> (HTTP upstreams) and tp<m> (TCP upstreams) with a real
// upstream on exactly the nodes in m, connected once. A belief matrix b says
// whether node i believes node j serves "the endpoint"; it is injected for all
// endpoints at once. One request per (b, m, entry, route), sequentially; the
// per-node counter deltas of the proxy handler and of Select are scraped from
// /metrics once every node's in-flight gauge is back to zero.

type c06rig struct {
	nodes []*Node
	n     int
	prev  []map[string]float64
	tcpUp map[string]*TCPUpstream
}

func c06Endpoint(route string, mask int) string {
	if route == "tcp" {
		return fmt.Sprintf("tp%d", mask)
	}
	return fmt.Sprintf("hp%d", mask)
}

func newC06Rig(n int, timeoutDisabled bool) (*c06rig, error) {
	rg := &c06rig{n: n, tcpUp: map[string]*TCPUpstream{}}
	for i := 0; i < n; i++ {
		o := NodeOpts{ID: fmt.Sprintf("s%d", i)}
		if timeoutDisabled {
			o.ProxyTimeout = -1
		}
		// legal, non-default access-log settings: what is logged must not change
		// what is routed (the filters name the routing headers on purpose)
		odd := i%2 == 1
		o.Mutate = func(c *config.Config) {
			if odd {
				c.Proxy.AccessLog.RequestHeaders.AllowList = []string{"User-Agent"}
			} else {
				c.Proxy.AccessLog.RequestHeaders.BlockList = []string{"X-Piko-Forward", "x-piko-endpoint", "Authorization"}
			}
		}
		nd, err := StartNode(o)
		if err != nil {
			StopAll(rg.nodes)
			return nil, err
		}
		rg.nodes = append(rg.nodes, nd)
	}
	for mask := 0; mask < 1<<n; mask++ {
		for i := 0; i < n; i++ {
			if mask&(1<<i) == 0 {
				continue
			}
			if _, err := ListenHTTP(rg.nodes[i], c06Endpoint("http", mask), fmt.Sprintf("h%d-%d", mask, i), ListenOpts{}); err != nil {
				return nil, err
			}
			if _, err := ListenTCP(rg.nodes[i], c06Endpoint("tcp", mask), fmt.Sprintf("t%d-%d", mask, i), ListenOpts{}); err != nil {
				return nil, err
			}
		}
	}
	// wait until every node registered its upstreams
	ok := core.WaitUntil(20*time.Second, 5*time.Millisecond, func() bool {
		for i, nd := range rg.nodes {
			want := 0
			for mask := 0; mask < 1<<n; mask++ {
				if mask&(1<<i) != 0 {
					want += 2
				}
			}
			got := 0
			for _, v := range nd.Cluster().LocalNode().Endpoints {
				got += v
			}
			if got != want {
				return false
			}
		}
		return true
	})
	if !ok {
		return nil, fmt.Errorf("upstreams did not register")
	}
	rg.prev = make([]map[string]float64, n)
	for i := range rg.nodes {
		m, err := rg.quiescentMetrics(i)
		if err != nil {
			return nil, err
		}
		rg.prev[i] = m
	}
	return rg, nil
}

func (rg *c06rig) close() { StopAll(rg.nodes) }

// inject sets node i's belief about every other node j for all endpoints.
func (rg *c06rig) inject(b [][]bool) {
	for i, nd := range rg.nodes {
		for _, x := range nd.Cluster().Nodes() {
			if x.ID != nd.ID {
				nd.Cluster().RemoveNode(x.ID)
			}
		}
		for j, o := range rg.nodes {
			if i == j {
				continue
			}
			eps := map[string]int{}
			if b[i][j] {
				for mask := 0; mask < 1<<rg.n; mask++ {
					eps[c06Endpoint("http", mask)] = 1
					eps[c06Endpoint("tcp", mask)] = 1
				}
			}
			nd.Cluster().AddNode(&cluster.Node{ID: o.ID, Status: cluster.NodeStatusActive,
				ProxyAddr: o.ProxyAddr(), AdminAddr: o.AdminAddr(), Endpoints: eps})
		}
	}
}

func (rg *c06rig) quiescentMetrics(i int) (map[string]float64, error) {
	return quiescentNodeMetrics(rg.nodes[i])
}

func quiescentNodeMetrics(node *Node) (map[string]float64, error) {
	var last map[string]float64
	var err error
	ok := core.WaitUntil(30*time.Second, 2*time.Millisecond, func() bool {
		m, e := Metrics(node, "")
		if e != nil {
			err = e
			return false
		}
		if m["piko_proxy_requests_in_flight"] != 0 {
			last = nil
			return false
		}
		// a scrape is not atomic: the first one that shows the gauge at zero
		// may have read a counter before the handler bumped it; the next one
		// is taken entirely after quiescence.
		if last == nil {
			last = m
			return false
		}
		last = m
		return true
	})
	if !ok {
		if err == nil {
			err = fmt.Errorf("proxy requests still in flight on %s after 30 s (%v)", node.ID, last["piko_proxy_requests_in_flight"])
		}
		return nil, err
	}
	return last, nil
}

type c06obs struct {
	Handler, Local, Remote []int
	Status                 int
	Stamp                  string
}

type c06case struct {
	N       int      `json:"n"`
	Belief  [][]bool `json:"belief"`
	Mask    int      `json:"placement_mask"`
	Entry   int      `json:"entry"`
	Route   string   `json:"route"`
	NoTimeo bool     `json:"proxy_timeout_disabled"`
}

func (rg *c06rig) request(c c06case) (obs c06obs, err error) {
	ep := c06Endpoint(c.Route, c.Mask)
	entry := rg.nodes[c.Entry]
	switch c.Route {
	case "tcp":
		conn, st, derr := DialTCP(entry, ep, "", 6*time.Second)
		if derr != nil {
			obs.Status = 0
			for _, code := range []int{502, 504, 400, 500} {
				if strings.Contains(derr.Error(), fmt.Sprint(code)) {
					obs.Status = code
				}
			}
		} else {
			obs.Status, obs.Stamp = 200, st
			conn.Close()
		}
	default:
		hs := [][2]string{{"x-piko-endpoint", ep}}
		if c.Route == "http-upgrade" {
			hs = append(hs, [2]string{"Upgrade", "websocket"}, [2]string{"Connection", "Upgrade"})
		}
		if c.Route == "http-connection-lists-marker" {
			// legal HTTP: the client names headers in Connection, asking proxies to drop them
			hs = append(hs, [2]string{"Connection", "x-piko-forward"})
		}
		raw := BuildRequest("GET", "/c06", "127.0.0.1", hs, nil, false)
		if c.Route == "http-upgrade" {
			// BuildRequest adds Connection: close; an upgrade request must not carry it
			raw = []byte(strings.Replace(string(raw), "Connection: close\r\n", "", 1))
		}
		resp, rerr := RawRequest(entry.ProxyAddr(), raw, "GET", 6*time.Second)
		if rerr != nil {
			obs.Status = 0
			err = nil
		} else {
			obs.Status, obs.Stamp = resp.Status, resp.Header.Get("X-Stamp")
		}
	}
	obs.Handler, obs.Local, obs.Remote = make([]int, rg.n), make([]int, rg.n), make([]int, rg.n)
	for i := range rg.nodes {
		m, merr := rg.quiescentMetrics(i)
		if merr != nil {
			return obs, merr
		}
		obs.Handler[i] = int(SumPrefix(m, "piko_proxy_requests_total") - SumPrefix(rg.prev[i], "piko_proxy_requests_total"))
		obs.Local[i] = int(SumPrefix(m, "piko_upstreams_upstream_requests_total") - SumPrefix(rg.prev[i], "piko_upstreams_upstream_requests_total"))
		obs.Remote[i] = int(SumPrefix(m, "piko_upstreams_remote_requests_total") - SumPrefix(rg.prev[i], "piko_upstreams_remote_requests_total"))
		rg.prev[i] = m
	}
	return obs, nil
}

func c06judge(rg *c06rig, c c06case, o c06obs) (sig, what string) {
	has := func(i int) bool { return c.Mask&(1<<i) != 0 }
	desc := fmt.Sprintf("case %s: status=%d stamp=%q handler=%v localSelect=%v remoteSelect=%v", c06desc(c), o.Status, o.Stamp, o.Handler, o.Local, o.Remote)
	totalH, totalR := 0, 0
	for i := 0; i < c.N; i++ {
		totalH += o.Handler[i]
		totalR += o.Remote[i]
		if o.Handler[i] > 1 {
			return "request-amplification", desc + fmt.Sprintf(": node s%d handled the request %d times", i, o.Handler[i])
		}
		if o.Remote[i] > 0 && has(i) {
			return "forwarded-despite-local-upstream", desc + fmt.Sprintf(": node s%d has a local upstream but selected a remote node", i)
		}
		if o.Remote[i] > 0 && i != c.Entry {
			return "second-hop", desc + fmt.Sprintf(": node s%d received the request from another node and forwarded it again", i)
		}
	}
	if totalH > 2 {
		return "request-amplification", desc + fmt.Sprintf(": %d proxy handler invocations for one request", totalH)
	}
	if totalR > 1 {
		return "second-hop", desc + ": more than one inter-node hop"
	}
	if o.Handler[c.Entry] != 1 {
		return "observation", desc + ": the entry node did not record the request"
	}
	stampNodeID := stampNode(o.Stamp)
	if o.Stamp != "" && stampEndpoint(o.Stamp) != c06Endpoint(c.Route, c.Mask) {
		return "wrong-endpoint", desc + ": served by an upstream of another endpoint"
	}
	switch {
	case has(c.Entry):
		if o.Stamp == "" || stampNodeID != rg.nodes[c.Entry].ID || totalH != 1 {
			return "local-not-preferred", desc + ": the entry node has a local upstream and must serve the request itself"
		}
	default:
		anyBelieved, believedWith, believedWithout := false, false, false
		for j := 0; j < c.N; j++ {
			if j != c.Entry && c.Belief[c.Entry][j] {
				anyBelieved = true
				if has(j) {
					believedWith = true
				} else {
					believedWithout = true
				}
			}
		}
		switch {
		case !anyBelieved:
			if o.Stamp != "" || o.Status != 502 || totalH != 1 {
				return "expected-502", desc + ": nobody is believed to serve the endpoint, expected a single 502"
			}
		default:
			if totalR != 1 || totalH != 2 {
				return "expected-one-hop", desc + ": expected exactly one forward to a believed node"
			}
			if o.Stamp != "" {
				// served by a local upstream of the receiving node
				j := -1
				for k, nd := range rg.nodes {
					if nd.ID == stampNodeID {
						j = k
					}
				}
				if j < 0 || j == c.Entry || !c.Belief[c.Entry][j] || !has(j) || o.Handler[j] != 1 {
					return "served-by-unexpected-node", desc + ": a forwarded request must be served by a local upstream of the node it was forwarded to"
				}
				if !believedWith {
					return "served-by-unexpected-node", desc + ": no believed node has an upstream"
				}
			} else {
				if o.Status != 502 {
					return "expected-502", desc + ": the forwarded-to node has no local upstream, expected 502"
				}
				if !believedWithout {
					return "unexpected-502", desc + ": every believed node has a local upstream, expected success"
				}
			}
		}
	}
	return "", ""
}

func c06desc(c c06case) string {
	var b strings.Builder
	for i := range c.Belief {
		for j := range c.Belief[i] {
			if i != j && c.Belief[i][j] {
				fmt.Fprintf(&b, "s%d→s%d ", i, j)
			}
		}
	}
	var pl []string
	for i := 0; i < c.N; i++ {
		if c.Mask&(1<<i) != 0 {
			pl = append(pl, fmt.Sprintf("s%d", i))
		}
	}
	return fmt.Sprintf("N=%d beliefs{%s} upstreams on %v entry=s%d route=%s timeoutDisabled=%v", c.N, strings.TrimSpace(b.String()), pl, c.Entry, c.Route, c.NoTimeo)
}

func beliefFromBits(n int, bits int) [][]bool {
	b := make([][]bool, n)
	k := 0
	for i := 0; i < n; i++ {
		b[i] = make([]bool, n)
		for j := 0; j < n; j++ {
			if i == j {
				continue
			}
			b[i][j] = bits&(1<<k) != 0
			k++
		}
	}
	return b
}

var c06Routes = []string{"http", "http-upgrade", "http-connection-lists-marker", "tcp"}

// runC06Space enumerates belief matrices [from, to) for cluster size n.
func runC06Space(sh *core.Shard, a props.Args, n int, noTimeout bool, beliefs []int, label string) bool {
	rg, err := newC06Rig(n, noTimeout)
	if err != nil {
		sh.Inconcl("C06 rig: %v", err)
		return false
	}
	defer rg.close()
	complete := true
	for _, bits := range beliefs {
		b := beliefFromBits(n, bits)
		rg.inject(b)
		fmt.Printf("CASE C06 %s n=%d noTimeout=%v beliefBits=%d\n", label, n, noTimeout, bits)
		for mask := 0; mask < 1<<n; mask++ {
			for entry := 0; entry < n; entry++ {
				for _, route := range c06Routes {
					c := c06case{N: n, Belief: b, Mask: mask, Entry: entry, Route: route, NoTimeo: noTimeout}
					o, err := rg.request(c)
					if err == nil && o.Status == 0 {
						// the client got no response. If the counters already show a loop or a
						// second hop that is the verdict; otherwise the client itself failed
						// (timeout on a loaded machine): ask again
						if sig, what := c06judge(rg, c, o); sig == "request-amplification" || sig == "second-hop" || sig == "forwarded-despite-local-upstream" {
							sh.Eval()
							sh.Violate(sig, what, c)
							return false
						}
						sh.Count("requests_repeated_after_client_error", 1)
						o, err = rg.request(c)
						if err == nil && o.Status == 0 {
							err = fmt.Errorf("the client got no response twice")
						}
					}
					sh.Eval()
					if err != nil {
						sh.Inconcl("%s: %v", c06desc(c), err)
						complete = false
						continue
					}
					sh.Count("requests", 1)
					hops := 0
					for _, r := range o.Remote {
						hops += r
					}
					if hops > 0 {
						sh.Count("forwarded_requests", 1)
						if o.Stamp == "" {
							sh.Count("forwarded_then_502", 1)
						}
					}
					if sig, what := c06judge(rg, c, o); sig != "" {
						sh.Violate(sig, what, c)
						return false
					}
					sh.Nontrivial(core.Hash(n, bits, mask, entry, route, noTimeout))
					if bits == 3 && mask == 0 && entry == 0 {
						sh.Sample(map[string]any{"case": c06desc(c), "observed": o})
					}
				}
			}
		}
	}
	return complete
}

// runC06LocalPreference: a node keeps serving locally while ANY local upstream
// remains, whatever the order in which its upstreams disconnect, although it
// believes (rightly) that another node serves the endpoint too.
func runC06LocalPreference(sh *core.Shard) {
	a, err := StartNode(NodeOpts{ID: "lp-a"})
	if err != nil {
		sh.Inconcl("local-preference rig: %v", err)
		return
	}
	defer a.Stop()
	b, err := StartNode(NodeOpts{ID: "lp-b"})
	if err != nil {
		sh.Inconcl("local-preference rig: %v", err)
		return
	}
	defer b.Stop()
	perms := [][]int{{0}, {0, 1}, {1, 0}, {0, 1, 2}, {0, 2, 1}, {1, 0, 2}, {1, 2, 0}, {2, 0, 1}, {2, 1, 0}}
	for pi, order := range perms {
		ep := fmt.Sprintf("lp%d", pi)
		rb, err := ListenHTTP(b, ep, "remote", ListenOpts{})
		if err != nil {
			sh.Inconcl("listen: %v", err)
			return
		}
		a.Cluster().RemoveNode(b.ID)
		a.Cluster().AddNode(&cluster.Node{ID: b.ID, Status: cluster.NodeStatusActive, ProxyAddr: b.ProxyAddr(), AdminAddr: b.AdminAddr(), Endpoints: map[string]int{ep: 1}})
		var ups []*HTTPUpstream
		for k := range order {
			u, err := ListenHTTP(a, ep, fmt.Sprintf("local%d", k), ListenOpts{})
			if err != nil {
				sh.Inconcl("listen: %v", err)
				return
			}
			ups = append(ups, u)
		}
		remaining := len(order)
		wait := func() bool {
			return core.WaitUntil(20*time.Second, 2*time.Millisecond, func() bool {
				return a.Cluster().LocalNode().Endpoints[ep] == remaining && b.Cluster().LocalNode().Endpoints[ep] == 1
			})
		}
		if !wait() {
			sh.Inconcl("local-preference: upstreams did not register")
			return
		}
		for step := 0; step <= len(order); step++ {
			// 2*remaining+1 requests: every local upstream gets its turn
			for q := 0; q < 2*remaining+1; q++ {
				resp, err := Get(a.ProxyAddr(), "127.0.0.1", "/lp", [][2]string{{"x-piko-endpoint", ep}}, 10*time.Second)
				sh.Eval()
				sh.Count("local_preference_requests", 1)
				if err != nil {
					sh.Inconcl("local-preference request: %v", err)
					return
				}
				st := resp.Header.Get("X-Stamp")
				desc := fmt.Sprintf("%d local upstreams, disconnect order %v, after %d disconnects (%d local upstreams remain, the other node also serves it)", len(order), order, step, remaining)
				if remaining > 0 && stampNode(st) != a.ID {
					sh.Violate("local-not-preferred", fmt.Sprintf("%s: the request was answered %d by %q instead of a local upstream", desc, resp.Status, st), map[string]any{"order": order, "step": step})
					return
				}
				if remaining == 0 && stampNode(st) != b.ID {
					sh.Violate("expected-one-hop", fmt.Sprintf("%s: expected to be served through the other node, got %d %q", desc, resp.Status, st), map[string]any{"order": order, "step": step})
					return
				}
			}
			if step < len(order) {
				ups[order[step]].Shutdown()
				remaining--
				if !wait() {
					sh.Violate("local-not-preferred", fmt.Sprintf("%d local upstreams, disconnect order %v: after disconnect %d the node registers %d upstreams for the endpoint, the harness holds %d", len(order), order, step+1, a.Cluster().LocalNode().Endpoints[ep], remaining), map[string]any{"order": order, "step": step})
					return
				}
			}
		}
		rb.Shutdown()
		sh.Count("local_preference_orders", 1)
		sh.Nontrivial(core.Hash("local-preference", order))
	}
}

// runC06GoAwayForwarded: a forwarded request reaches a node whose only local
// upstream for the endpoint has announced go-away (an agent shutting down
// gracefully: still registered, refuses new streams) while that node's own routing
// table - rightly or stalely - lists another node for the endpoint. Whatever the
// receiving node does about the refused dial, the request has used its one hop: it
// is answered there (502), never sent on to a third node and never back to the
// entry node. Checked on the HTTP route with handler counts from every node.
func runC06GoAwayForwarded(sh *core.Shard) {
	var ns []*Node
	for _, id := range []string{"ga-a", "ga-b", "ga-c"} {
		n, err := StartNode(NodeOpts{ID: id})
		if err != nil {
			sh.Inconcl("go-away rig: %v", err)
			StopAll(ns)
			return
		}
		ns = append(ns, n)
	}
	defer StopAll(ns)
	a, b, c := ns[0], ns[1], ns[2]
	holder := func(n *Node, ep string) *cluster.Node {
		return &cluster.Node{ID: n.ID, Status: cluster.NodeStatusActive, ProxyAddr: n.ProxyAddr(), AdminAddr: n.AdminAddr(), Endpoints: map[string]int{ep: 1}}
	}
	for si, scen := range []string{"B believes the entry node", "B believes a third node that really serves it", "B believes both"} {
		for rep := 0; rep < 2; rep++ {
			ep := fmt.Sprintf("ga%d-%d", si, rep)
			ub, err := ListenHTTP(b, ep, "b-local", ListenOpts{})
			if err != nil {
				sh.Inconcl("listen: %v", err)
				return
			}
			uc, err := ListenHTTP(c, ep, "c-local", ListenOpts{})
			if err != nil {
				sh.Inconcl("listen: %v", err)
				return
			}
			if !core.WaitUntil(20*time.Second, 2*time.Millisecond, func() bool {
				return b.Cluster().LocalNode().Endpoints[ep] == 1 && c.Cluster().LocalNode().Endpoints[ep] == 1
			}) {
				sh.Inconcl("go-away rig: upstreams did not register")
				return
			}
			for _, n := range ns {
				for _, o := range ns {
					n.Cluster().RemoveNode(o.ID)
				}
			}
			a.Cluster().AddNode(holder(b, ep))
			if si == 0 || si == 2 {
				b.Cluster().AddNode(holder(a, ep))
			}
			if si == 1 || si == 2 {
				b.Cluster().AddNode(holder(c, ep))
			}
			// B's upstream has served before (rep 1), then announces go-away
			if rep == 1 {
				if resp, err := Get(b.ProxyAddr(), "127.0.0.1", "/warm", [][2]string{{"x-piko-endpoint", ep}}, 10*time.Second); err != nil || resp.Status != 200 {
					sh.Inconcl("go-away rig: warm-up request failed")
					return
				}
			}
			ub.GoAway()
			time.Sleep(50 * time.Millisecond)
			var prev []map[string]float64
			for _, n := range ns {
				m, err := quiescentNodeMetrics(n)
				if err != nil {
					sh.Inconcl("metrics: %v", err)
					return
				}
				prev = append(prev, m)
			}
			resp, rerr := Get(a.ProxyAddr(), "127.0.0.1", "/c06-goaway", [][2]string{{"x-piko-endpoint", ep}}, 15*time.Second)
			status, stamp := 0, ""
			if rerr == nil {
				status, stamp = resp.Status, resp.Header.Get("X-Stamp")
			}
			handler := make([]int, 3)
			for i, n := range ns {
				m, err := quiescentNodeMetrics(n)
				if err != nil {
					sh.Inconcl("metrics: %v", err)
					return
				}
				handler[i] = int(SumPrefix(m, "piko_proxy_requests_total") - SumPrefix(prev[i], "piko_proxy_requests_total"))
			}
			sh.Eval()
			sh.Count("goaway_forwarded_cases", 1)
			desc := fmt.Sprintf("go-away on the receiver (%s, warm=%v): request entered at %s, forwarded to %s whose only local upstream announced go-away; proxy handler invocations a/b/c = %v, client got %d %q", scen, rep == 1, a.ID, b.ID, handler, status, stamp)
			wit := map[string]any{"scenario": scen, "warm": rep == 1, "handler": handler, "status": status}
			if handler[0] > 1 || handler[1] > 1 || handler[0]+handler[1]+handler[2] > 2 {
				sh.Violate("request-amplification", desc, wit)
				return
			}
			if handler[2] > 0 || stampNode(stamp) == c.ID {
				sh.Violate("second-hop", desc+": a request that had already been forwarded once reached a third node", wit)
				return
			}
			if handler[0] == 1 && handler[1] == 1 && status != 502 && status != 504 && stampNode(stamp) != b.ID {
				sh.Violate("expected-502", desc, wit)
				return
			}
			ub.Shutdown()
			uc.Shutdown()
			sh.Nontrivial(core.Hash("goaway-forwarded", si, rep))
		}
	}
}

func runC06(sh *core.Shard, a props.Args) {
	if a.Shard == a.NShards-1 {
		fmt.Println("CASE C06 local preference under disconnect orders")
		runC06LocalPreference(sh)
	}
	if a.Shard == 0 {
		fmt.Println("CASE C06 forwarded request meets a go-away'd upstream")
		runC06GoAwayForwarded(sh)
	}
	// work units: (n, noTimeout, chunk of belief matrices)
	type unit struct {
		n       int
		noTimeo bool
		beliefs []int
		label   string
	}
	var units []unit
	for _, nt := range []bool{false, true} {
		var all2 []int
		for b := 0; b < 4; b++ {
			all2 = append(all2, b)
		}
		units = append(units, unit{2, nt, all2, "exhaustive-n2"})
	}
	// N=3: 64 belief matrices, split in chunks of 8, both timeout configs in thorough,
	// alternating in quick
	for chunk := 0; chunk < 8; chunk++ {
		var bs []int
		for b := chunk * 8; b < chunk*8+8; b++ {
			bs = append(bs, b)
		}
		if a.Thorough() {
			units = append(units, unit{3, false, bs, "exhaustive-n3"}, unit{3, true, bs, "exhaustive-n3"})
		} else {
			units = append(units, unit{3, chunk%2 == 1, bs, "exhaustive-n3-beliefs"})
		}
	}
	// N=4 sampled
	r := rand.New(rand.NewSource(a.Seed))
	for k := 0; k < a.Pick(6, 64); k++ {
		var bs []int
		for x := 0; x < a.Pick(2, 8); x++ {
			bs = append(bs, r.Intn(1<<12))
		}
		units = append(units, unit{4, k%2 == 0, bs, "sampled-n4"})
	}
	allOK := true
	for i, u := range units {
		if !a.Mine(i) {
			continue
		}
		ok := runC06Space(sh, a, u.n, u.noTimeo, u.beliefs, u.label)
		if u.n <= 3 {
			allOK = allOK && ok
		}
	}
	sh.Exhaustive["views_n2_and_n3"] = allOK
}

func init() {
	props.Register(&props.Prop{
		ID: "C06", Level: "exploration", Race: true, Parallel: 8,
		Rule: "every node runs with a non-default access-log header filter (odd nodes an allow-list of User-Agent only, even nodes a block-list naming the routing headers); 2-4 stand-alone real nodes with beliefs injected through cluster.State's public mutators: every belief matrix (node i believes node j serves the endpoint, rightly or wrongly; includes mutual and cyclic beliefs) x every placement of real upstreams x every entry node x route in {HTTP, HTTP carrying Upgrade: websocket, TCP tunnel}, with the proxy timeout at its default and disabled. For N=2 (4 matrices) and N=3 (64 matrices) the space is enumerated completely (in quick the N=3 matrices are split between the two timeout configurations; thorough runs both in full); N=4 is sampled. One request at a time; per-node deltas of piko_proxy_requests_total, piko_upstreams_upstream_requests_total and piko_upstreams_remote_requests_total are scraped once every node's in-flight gauge is zero. Oracle: <=1 handler invocation per node and <=2 in total, <=1 remote selection, none on a node with a local upstream or on a node that received the request forwarded; entry with local upstream serves it itself; otherwise exactly one forward to a believed node, served by that node's local upstream or 502; nobody believed => single 502. Go-away scenario (3 nodes, HTTP): the entry node forwards to a node whose only local upstream has announced go-away (cold, or after serving one request) and whose own table lists the entry node, a third node that really serves the endpoint, or both: handler invocations <=1 per node, <=2 in total, none on the third node, and the client gets 502. Distinct = one per (N, matrix, placement, entry, route, config).",
		Assumptions: []string{
			"counters are read from /metrics at quiescence (in-flight gauge zero), so a loop that never terminates shows up as a watchdog/inconclusive plus amplified counts",
			"requests are sequential: the property is about routing decisions, not concurrency (C20)",
		},
		RequireCounters:   []string{"forwarded_requests", "forwarded_then_502", "requests", "local_preference_orders", "goaway_forwarded_cases"},
		ExhaustiveWhenAll: false,
		Run:               runC06,
	})
}
