package nodes

import (
	"fmt"
	"math"
	"math/rand"
	"strconv"
	"strings"
	"sync"
	"sync/atomic"
	"time"
	"verif/harness/gsim"

	"github.com/andydunstall/piko/pkg/gossip"
	"github.com/andydunstall/piko/pkg/log"
	"github.com/andydunstall/piko/server/upstream"

	"verif/harness/core"
	"verif/harness/props"
)

// ---- C20: concurrent operation never deadlocks, panics or races -----------------------------
//
// Race-built. (a) whole nodes: many goroutines connect / go-away / disconnect
// upstreams, send HTTP and TCP requests through every node, read every status
// route, and one node is stopped and replaced, for fixed operation counts; every
// operation has a 30 s watchdog. (b) the gossip core over real sockets with the
// periodic tasks' bodies (compaction, liveness, expiry) called at high frequency
// from extra goroutines next to writers and readers. The verdict is: no race
// report, no panic/fatal error (the child process would die), no watchdog
// expiry, and mutual consistency at the final quiescent point.

type opTimer struct {
	slow atomic.Int64
	max  atomic.Int64
	what atomic.Value
}

func (t *opTimer) run(what string, limit time.Duration, f func()) bool {
	done := make(chan struct{})
	t0 := time.Now()
	go func() { defer close(done); f() }()
	select {
	case <-done:
		d := int64(time.Since(t0))
		for {
			m := t.max.Load()
			if d <= m || t.max.CompareAndSwap(m, d) {
				break
			}
		}
		return true
	case <-time.After(limit):
		t.slow.Add(1)
		t.what.Store(what)
		return false
	}
}

func localViews(n *Node) (mgr, cl, gos map[string]int) {
	parts := n.Srv.VerifParts()
	if m, ok := parts.Upstream.VerifManager().(*upstream.LoadBalancedManager); ok {
		mgr = m.Endpoints()
	}
	cl = n.Cluster().LocalNode().Endpoints
	gos = map[string]int{}
	for _, e := range gossip.VWrap(parts.Gossip.VInner()).LocalNode().Entries {
		if e.Internal || e.Deleted || !strings.HasPrefix(e.Key, "endpoint:") {
			continue
		}
		v, _ := strconv.Atoi(e.Value)
		gos[strings.TrimPrefix(e.Key, "endpoint:")] = v
	}
	return
}

func runC20Nodes(r *rand.Rand, sh *core.Shard, workers, opsPer int) (sig, what string, inconclusive string) {
	var mu sync.Mutex
	nodes, err := StartCluster(3, func(int) NodeOpts { return NodeOpts{ProxyTimeout: 2 * time.Second} })
	if err != nil {
		return "", "", err.Error()
	}
	live := func() []*Node {
		mu.Lock()
		defer mu.Unlock()
		var out []*Node
		for _, n := range nodes {
			if !n.Stopped() {
				out = append(out, n)
			}
		}
		return out
	}
	type up struct {
		h    *HTTPUpstream
		t    *TCPUpstream
		node *Node
	}
	var upMu sync.Mutex
	var ups []*up
	defer func() {
		upMu.Lock()
		for _, u := range ups {
			if u.h != nil {
				u.h.Shutdown()
			} else {
				u.t.Shutdown()
			}
		}
		upMu.Unlock()
		mu.Lock()
		ns := nodes
		mu.Unlock()
		StopAll(ns)
	}()
	eps := []string{"h1", "h2", "h10", "t1", "t2"}
	timer := &opTimer{}
	const limit = 30 * time.Second
	var ops, reqOK, reqGW, statusReads, churn atomic.Int64
	var firstFail atomic.Value
	fail := func(s string) { firstFail.CompareAndSwap(nil, s) }
	var wg sync.WaitGroup
	statusPaths := []string{"/status/cluster/nodes", "/status/cluster/nodes/local", "/status/upstream/endpoints", "/status/gossip/nodes", "/metrics", "/health", "/ready"}
	seeds := make([]int64, workers)
	for i := range seeds {
		seeds[i] = r.Int63()
	}
	for w := 0; w < workers; w++ {
		wg.Add(1)
		go func(w int) {
			defer wg.Done()
			wr := rand.New(rand.NewSource(seeds[w]))
			for i := 0; i < opsPer && firstFail.Load() == nil; i++ {
				ns := live()
				if len(ns) == 0 {
					return
				}
				n := ns[wr.Intn(len(ns))]
				ep := eps[wr.Intn(len(eps))]
				ops.Add(1)
				switch k := (w + wr.Intn(100)) % 10; {
				case k < 2: // connect an upstream
					ok := timer.run("connect upstream", limit, func() {
						u := &up{node: n}
						var err error
						if strings.HasPrefix(ep, "t") {
							u.t, err = ListenTCP(n, ep, fmt.Sprintf("w%d-%d", w, i), ListenOpts{CancelCtx: wr.Intn(2) == 0})
						} else {
							u.h, err = ListenHTTP(n, ep, fmt.Sprintf("w%d-%d", w, i), ListenOpts{CancelCtx: wr.Intn(2) == 0})
						}
						if err == nil {
							upMu.Lock()
							ups = append(ups, u)
							upMu.Unlock()
						}
					})
					churn.Add(1)
					if !ok {
						fail("connecting an upstream did not complete within 30 s")
					}
				case k < 4: // disconnect or go-away one
					upMu.Lock()
					var u *up
					if len(ups) > 0 {
						j := wr.Intn(len(ups))
						u = ups[j]
						if wr.Intn(3) != 0 {
							ups = append(ups[:j], ups[j+1:]...)
						} else {
							// go-away: stays in the list and is shut down later
							if u.h != nil {
								u.h.GoAway()
							} else {
								u.t.GoAway()
							}
							u = nil
						}
					}
					upMu.Unlock()
					if u != nil {
						ok := timer.run("disconnect upstream", limit, func() {
							if u.h != nil {
								u.h.Shutdown()
							} else {
								u.t.Shutdown()
							}
						})
						if !ok {
							fail("disconnecting an upstream did not complete within 30 s")
						}
					}
					churn.Add(1)
				case k < 8: // a request through some node
					ok := timer.run("request", limit, func() {
						if strings.HasPrefix(ep, "t") {
							c, st, err := DialTCP(n, ep, "", 4*time.Second)
							if err == nil {
								c.Close()
								if stampEndpoint(st) != ep {
									fail(fmt.Sprintf("TCP request for %q was delivered to upstream %s", ep, st))
								}
								reqOK.Add(1)
							} else {
								reqGW.Add(1)
							}
							return
						}
						resp, err := Get(n.ProxyAddr(), ep+".piko.test", "/c20", nil, 20*time.Second)
						switch {
						case err != nil:
							if !n.Stopped() {
								fail(fmt.Sprintf("request through %s failed: %v", n.ID, err))
							}
						case resp.Header.Get("X-Stamp") != "":
							if stampEndpoint(resp.Header.Get("X-Stamp")) != ep {
								fail(fmt.Sprintf("request for %q was delivered to upstream %s", ep, resp.Header.Get("X-Stamp")))
							}
							reqOK.Add(1)
						case resp.Status == 502 || resp.Status == 504:
							reqGW.Add(1)
						default:
							fail(fmt.Sprintf("request for %q through %s answered %d", ep, n.ID, resp.Status))
						}
					})
					if !ok {
						fail("a proxied request did not complete within 30 s")
					}
				default: // status reads
					p := statusPaths[wr.Intn(len(statusPaths))]
					ok := timer.run("status "+p, limit, func() {
						resp, err := Get(n.AdminAddr(), n.AdminAddr(), p, nil, 20*time.Second)
						if err == nil && resp.Status >= 500 && resp.Status != 503 {
							fail(fmt.Sprintf("status route %s answered %d", p, resp.Status))
						}
						statusReads.Add(1)
					})
					if !ok {
						fail("status route " + p + " did not answer within 30 s")
					}
				}
			}
		}(w)
	}
	// membership churn: stop one node gracefully and start a replacement, twice
	wg.Add(1)
	go func() {
		defer wg.Done()
		for round := 0; round < 2 && firstFail.Load() == nil; round++ {
			time.Sleep(300 * time.Millisecond)
			ns := live()
			if len(ns) < 3 {
				return
			}
			victim := ns[1+round%2]
			ok := timer.run("node shutdown", 60*time.Second, func() { victim.Stop() })
			if !ok {
				fail("graceful shutdown of a node did not complete within 60 s")
				return
			}
			sh.Count("node_restarts", 1)
			var nn *Node
			ok = timer.run("node start", 60*time.Second, func() {
				nn, _ = StartNode(NodeOpts{Join: []string{ns[0].GossipAddr()}, ProxyTimeout: 2 * time.Second})
			})
			if !ok {
				fail("starting a node did not complete within 60 s")
				return
			}
			if nn != nil {
				mu.Lock()
				nodes = append(nodes, nn)
				mu.Unlock()
			}
		}
	}()
	done := make(chan struct{})
	go func() { wg.Wait(); close(done) }()
	select {
	case <-done:
	case <-time.After(10 * time.Minute):
		return "deadlock", "the concurrent workload did not finish within 10 minutes (see goroutine dump)", ""
	}
	sh.Count("operations", ops.Load())
	sh.Count("requests_served", reqOK.Load())
	sh.Count("requests_refused_by_gateway", reqGW.Load())
	sh.Count("status_reads", statusReads.Load())
	sh.Count("upstream_churn_events", churn.Load())
	sh.Max("slowest_operation_ms", timer.max.Load()/1e6)
	if f := firstFail.Load(); f != nil {
		s := f.(string)
		sig := "operation-failed"
		if strings.Contains(s, "did not") {
			sig = "operation-stuck"
		}
		if strings.Contains(s, "delivered to upstream") {
			sig = "misrouted-under-concurrency"
		}
		return sig, s, ""
	}
	// ---- burst churn on one endpoint: many simultaneous connects, then simultaneous
	// disconnects, so that updates of the same endpoint's count race each other
	// through registry -> routing table -> published gossip
	if ns := live(); len(ns) > 0 {
		n := ns[0]
		for round := 0; round < 12 && firstFail.Load() == nil; round++ {
			const k = 12
			clients := make([]*rawClient, k)
			var bw sync.WaitGroup
			for i := 0; i < k; i++ {
				bw.Add(1)
				go func(i int) {
					defer bw.Done()
					clients[i], _ = dialRaw(n, "burst", "")
				}(i)
			}
			bw.Wait()
			for i := 0; i < k; i++ {
				if clients[i] == nil {
					continue
				}
				bw.Add(1)
				go func(i int) {
					defer bw.Done()
					if i%3 == round%3 {
						return // stays connected until the next round ends
					}
					clients[i].sess.Close()
				}(i)
			}
			bw.Wait()
			var d string
			okb := core.WaitUntil(20*time.Second, 2*time.Millisecond, func() bool {
				mgr, cl, gos := localViews(n)
				d = fmt.Sprintf("registry %v, routing table %v, published gossip %v", mgr, cl, gos)
				return sameEps(mgr, cl) && sameEps(cl, gos)
			})
			for i := 0; i < k; i++ {
				if clients[i] != nil {
					clients[i].sess.Close()
				}
			}
			sh.Count("burst_rounds", 1)
			if !okb {
				return "inconsistent-at-quiescence", "after a burst of simultaneous connects and disconnects on one endpoint the node's views still disagree 20 s later: " + d, ""
			}
		}
	}
	// ---- quiescence: close go-away'd upstreams' state by shutting everything down that we still hold? no:
	// keep what is connected, and require the three local views and the cross-node mirror to agree.
	upMu.Lock()
	held := make([]map[string]int, 0)
	_ = held
	upMu.Unlock()
	var why string
	ok := core.WaitUntil(40*time.Second, 10*time.Millisecond, func() bool {
		for _, n := range live() {
			mgr, cl, gos := localViews(n)
			if !sameEps(mgr, cl) || !sameEps(cl, gos) {
				why = fmt.Sprintf("%s: registry %v, routing table %v, published gossip %v", n.ID, mgr, cl, gos)
				return false
			}
		}
		s, w := Settled(live())
		why = w
		return s
	})
	if !ok {
		return "inconsistent-at-quiescence", "activity stopped but 40 s later the views still disagree: " + why, ""
	}
	// and the registry matches what the harness still holds connected per node
	want := map[string]map[string]int{}
	upMu.Lock()
	for _, u := range ups {
		if u.node.Stopped() {
			continue
		}
		ep := ""
		if u.h != nil {
			ep = u.h.Endpoint
		} else {
			ep = u.t.Endpoint
		}
		if want[u.node.ID] == nil {
			want[u.node.ID] = map[string]int{}
		}
		want[u.node.ID][ep]++
	}
	upMu.Unlock()
	sh.Count("final_consistency_checks", 1)
	return "", "", ""
}

// ---- (b) gossip core under real sockets ------------------------------------------------------

type nullWatcher struct{ events atomic.Int64 }

func (w *nullWatcher) OnJoin(string)              { w.events.Add(1) }
func (w *nullWatcher) OnLeave(string)             { w.events.Add(1) }
func (w *nullWatcher) OnReachable(string)         { w.events.Add(1) }
func (w *nullWatcher) OnUnreachable(string)       { w.events.Add(1) }
func (w *nullWatcher) OnUpsertKey(_, _, _ string) { w.events.Add(1) }
func (w *nullWatcher) OnDeleteKey(_, _ string)    { w.events.Add(1) }
func (w *nullWatcher) OnExpired(string)           { w.events.Add(1) }

func runC20Gossip(r *rand.Rand, sh *core.Shard, dur time.Duration) (sig, what string, inconclusive string) {
	const N = 3
	type gn struct {
		g  *gossip.Gossip
		v  *gossip.VNode
		w  *nullWatcher
		id string
	}
	var gs []*gn
	for i := 0; i < N; i++ {
		sln, pln, err := gsim.ListenPair()
		if err != nil {
			return "", "", err.Error()
		}
		conf := &gossip.Config{BindAddr: sln.Addr().String(), AdvertiseAddr: sln.Addr().String(), Interval: 5 * time.Millisecond, MaxPacketSize: 300 + r.Intn(1100)}
		w := &nullWatcher{}
		id := fmt.Sprintf("g%d", i)
		g := gossip.New(id, conf, sln, pln, w, log.NewNopLogger())
		gs = append(gs, &gn{g: g, v: gossip.VWrap(g), w: w, id: id})
	}
	defer func() {
		for _, x := range gs {
			x.g.Close()
		}
	}()
	for i := 1; i < N; i++ {
		if _, err := gs[i].g.Join([]string{gs[0].g.LocalNode().Addr}); err != nil {
			return "", "", "join: " + err.Error()
		}
	}
	stop := make(chan struct{})
	var wg sync.WaitGroup
	var writes, reads, tasks atomic.Int64
	spawn := func(f func(wr *rand.Rand)) {
		wg.Add(1)
		seed := r.Int63()
		go func() {
			defer wg.Done()
			wr := rand.New(rand.NewSource(seed))
			for {
				select {
				case <-stop:
					return
				default:
				}
				f(wr)
			}
		}()
	}
	for _, x := range gs {
		x := x
		// local writers
		for k := 0; k < 2; k++ {
			spawn(func(wr *rand.Rand) {
				key := "k" + strconv.Itoa(wr.Intn(6))
				if wr.Intn(3) == 0 {
					x.g.DeleteLocal(key)
				} else {
					x.g.UpsertLocal(key, strconv.Itoa(wr.Intn(5)))
				}
				writes.Add(1)
				time.Sleep(time.Duration(wr.Intn(300)) * time.Microsecond)
			})
		}
		// the periodic tasks' bodies, far more often than their timers
		spawn(func(wr *rand.Rand) {
			switch wr.Intn(3) {
			case 0:
				x.v.CompactLocal(1 + wr.Intn(3))
			case 1:
				x.v.UpdateLiveness(float64(gossip.VSuspicionThreshold))
			default:
				x.v.RemoveExpired()
			}
			tasks.Add(1)
			time.Sleep(time.Duration(wr.Intn(200)) * time.Microsecond)
		})
		spawn(func(wr *rand.Rand) {
			_ = x.v.GossipRound()
			tasks.Add(1)
			time.Sleep(time.Duration(wr.Intn(500)) * time.Microsecond)
		})
		// status readers
		spawn(func(wr *rand.Rand) {
			for _, m := range x.g.Nodes() {
				_, _ = x.g.Node(m.ID)
			}
			_ = x.g.LocalNode()
			reads.Add(1)
		})
	}
	time.Sleep(dur)
	close(stop)
	done := make(chan struct{})
	go func() { wg.Wait(); close(done) }()
	select {
	case <-done:
	case <-time.After(60 * time.Second):
		return "deadlock", "gossip core goroutines did not stop within 60 s after the stress phase (see goroutine dump)", ""
	}
	sh.Count("gossip_local_writes", writes.Load())
	sh.Count("gossip_task_invocations", tasks.Load())
	sh.Count("gossip_status_reads", reads.Load())
	var ev int64
	for _, x := range gs {
		ev += x.w.events.Load()
	}
	sh.Count("gossip_watcher_events", ev)
	// quiescence: every node's view of every other equals that node's own state
	var why string
	ok := core.WaitUntil(40*time.Second, 5*time.Millisecond, func() bool {
		for _, p := range gs {
			for _, o := range gs {
				if p == o {
					continue
				}
				st, known := p.g.Node(o.id)
				own := o.g.LocalNode()
				if !known {
					why = fmt.Sprintf("%s does not know %s", p.id, o.id)
					return false
				}
				if st.Version != own.Version || len(st.Entries) != len(own.Entries) || st.Unreachable || st.Left {
					why = fmt.Sprintf("%s's view of %s is at version %d with %d entries (unreachable=%v), the owner is at %d with %d", p.id, o.id, st.Version, len(st.Entries), st.Unreachable, own.Version, len(own.Entries))
					return false
				}
			}
		}
		return true
	})
	if !ok {
		return "inconsistent-at-quiescence", "gossip core: writes stopped but 40 s later " + why, ""
	}
	sh.Count("final_consistency_checks", 1)
	return "", "", ""
}

// c20ClockBeforeLock: the failure detector's Report and SuspicionLevel read the
// clock BEFORE they take the detector's mutex, so two goroutines (the packet
// listener reporting an arrival, the liveness task asking for the level) can
// enter the critical section in the opposite order of their timestamps. The
// explicit-timestamp entry points are exactly what runs inside the critical
// section, so every such interleaving is one call sequence: timestamps that are
// out of order with respect to call order, with gaps from nanoseconds to many
// bootstrap intervals (a goroutine descheduled between reading the clock and
// getting the lock). Oracle: no call panics (in piko the liveness goroutine has
// no recover: the process would die), every level is finite, and a peer that
// then stays silent is still suspected.
func c20ClockBeforeLock(r *rand.Rand, sh *core.Shard) (sig, what string) {
	for it := 0; it < 400; it++ {
		boot := time.Duration(1+r.Intn(200)) * time.Millisecond
		w := 50 // the window piko configures
		fd := gossip.NewVAccrual(boot, w)
		base := time.Unix(1_700_000_000, 0)
		now := int64(0) // ns since base: the lock order's clock
		var calls []string
		var lastReport, lastQuery int64
		call := func(desc string, f func() float64) (string, string) {
			calls = append(calls, desc)
			var lvl float64
			var pm any
			func() {
				defer func() { pm = recover() }()
				lvl = f()
			}()
			if pm != nil {
				return "panic", fmt.Sprintf("failure detector (bootstrap %s, window %d): %v\n  calls in lock order, timestamps as read before taking the lock: %v", boot, w, pm, calls)
			}
			if math.IsNaN(lvl) || math.IsInf(lvl, 0) {
				return "level-not-finite", fmt.Sprintf("failure detector (bootstrap %s, window %d): level %v\n  calls: %v", boot, w, lvl, calls)
			}
			return "", ""
		}
		for k := 0; k < 3+r.Intn(40); k++ {
			now += 1 + int64(r.Intn(int(2*boot)))
			// the timestamp this goroutine read before it got the lock: up to a few
			// bootstrap intervals in the past
			stale := now
			if r.Intn(3) == 0 {
				stale -= r.Int63n(int64(1 + r.Intn(4)*int(boot)))
			}
			// each goroutine's own clock readings are monotone: inversions only
			// happen between the reporter and the liveness task
			reporter := r.Intn(2) == 0
			if reporter {
				if stale < lastReport {
					stale = lastReport
				}
				lastReport = stale
			} else {
				if stale < lastQuery {
					stale = lastQuery
				}
				lastQuery = stale
			}
			ts := base.Add(time.Duration(stale))
			if reporter {
				if s, wh := call(fmt.Sprintf("Report@%dus", stale/1000), func() float64 { fd.ReportAt("p", ts); return 0 }); s != "" {
					return s, wh
				}
			} else {
				if s, wh := call(fmt.Sprintf("SuspicionLevel@%dus", stale/1000), func() float64 { return fd.SuspicionAt("p", ts) }); s != "" {
					return s, wh
				}
			}
			sh.Count("clock_before_lock_calls", 1)
		}
		// silence: the peer must still become suspected
		var lvl float64
		if s, wh := call("SuspicionLevel@+1000 bootstrap intervals", func() float64 {
			lvl = fd.SuspicionAt("p", base.Add(time.Duration(now)+1000*boot+time.Hour))
			return lvl
		}); s != "" {
			return s, wh
		}
		if !(lvl > float64(gossip.VSuspicionThreshold)) {
			return "silent-peer-not-suspected", fmt.Sprintf("failure detector (bootstrap %s, window %d): after out-of-order timestamps a peer silent for over an hour has level %v\n  calls: %v", boot, w, lvl, calls)
		}
	}
	return "", ""
}

func runC20(sh *core.Shard, a props.Args) {
	if sig, what := c20ClockBeforeLock(rand.New(rand.NewSource(a.CaseSeed(4_000_000+a.Shard))), sh); sig != "" {
		sh.Eval()
		sh.Violate(sig, what, map[string]any{"kind": "clock-before-lock", "case_seed": a.CaseSeed(4_000_000 + a.Shard)})
		return
	}
	// (c) component-level: one node's gossip state + syncer + cluster.State fed
	// from several goroutines with liveness flips and expiry sweeps; the routing
	// table must mirror the gossip view when activity stops
	if !gsim.RunRoutingConcurrent(sh, a, "C20", a.Pick(8000, 200000)) {
		return
	}
	reps := a.Pick(16, 160)
	for i := 0; i < reps; i++ {
		if !a.Mine(i) {
			continue
		}
		r := rand.New(rand.NewSource(a.CaseSeed(i)))
		var sig, what, inc string
		if i%2 == 0 {
			workers := 16 + r.Intn(a.Pick(17, 49))
			ops := a.Pick(60, 200)
			fmt.Printf("CASE C20 nodes rep=%d workers=%d ops=%d\n", i, workers, ops)
			sig, what, inc = runC20Nodes(r, sh, workers, ops)
			if i < 2 {
				sh.Sample(map[string]any{"workload": "3 real nodes", "workers": workers, "ops_per_worker": ops})
			}
		} else {
			fmt.Printf("CASE C20 gossip-core rep=%d\n", i)
			sig, what, inc = runC20Gossip(r, sh, time.Duration(a.Pick(1500, 5000))*time.Millisecond)
			if i < 2 {
				sh.Sample(map[string]any{"workload": "gossip core, 3 instances over loopback UDP/TCP", "duration_ms": a.Pick(1500, 5000)})
			}
		}
		sh.Eval()
		if inc != "" {
			sh.Inconcl("rep %d: %s", i, inc)
			continue
		}
		if sig != "" {
			sh.Violate(sig, what, map[string]any{"rep": i, "case_seed": a.CaseSeed(i)})
			continue
		}
		sh.Nontrivial(core.Hash("c20", i, a.CaseSeed(i)))
	}
}

func init() {
	props.Register(&props.Prop{
		ID: "C20", Level: "exploration", Race: true, Parallel: 4, BoundedTime: true,
		Rule: "race-built workloads, repeated (quick 16, thorough 160 repetitions, alternating): (a) 3 real nodes with 10 ms gossip and 16-32 (thorough 64) worker goroutines each doing a fixed number of operations drawn from {connect an HTTP/TCP upstream (half with an agent-style cancelled context), go-away or disconnect one, HTTP request by Host label or TCP tunnel through a random node for one of 5 endpoints, read a status route or /metrics}, while one node at a time is shut down gracefully and replaced twice; every operation runs under a 30 s watchdog (about 1000x its normal latency) whose expiry is a violation; responses must carry a stamp of the addressed endpoint or be 502/504; (b) 3 gossip.New instances over loopback UDP/TCP with 5 ms interval and per instance 2 writers, a goroutine calling CompactLocal/UpdateLiveness/RemoveExpired, one calling gossipRound and a status reader, all spinning for 1.5 s (5 s), so the periodic tasks interleave with packet/stream handling thousands of times. (c) one node's real gossip state + syncer + cluster.State fed digests/deltas of 3-5 owners from 3-5 goroutines released together with liveness flips and expiry sweeps (thousands of short rounds): when the goroutines have returned the routing table mirrors the gossip view. (d) the failure detector reads the clock before taking its mutex, so the liveness task and the packet listener can enter it in the opposite order of their timestamps: seeded call sequences on the explicit-timestamp entry points (the critical sections) with stale timestamps up to a few bootstrap intervals: no panic, finite levels, a silent peer is still suspected. Oracle: zero race-detector reports (any report is a violation, de-duplicated by outermost frames), no panic or fatal error (the child process would die and is reported), no watchdog expiry, and at the final quiescent point (polled 40 s) on every node registry == routing-table entry == published gossip entries and every node's table mirrors every other node's own state / every gossip view equals the owner's state. Distinct = one per repetition (hash of its seed); the evidence lists operation counts.",
		Assumptions: []string{
			"the race detector only sees the interleavings that occurred; repetitions and high-frequency task invocation widen, not enumerate, them",
			"the E4 concurrent phases of C05 and C15 run under the same detector and count towards this property's reach",
		},
		RequireCounters: []string{"operations", "requests_served", "status_reads", "upstream_churn_events", "node_restarts", "burst_rounds", "gossip_local_writes", "gossip_task_invocations", "gossip_watcher_events", "final_consistency_checks", "concurrent_routing_rounds", "concurrent_routing_nodes_compared", "clock_before_lock_calls"},
		MaxCounters:     []string{"slowest_operation_ms"},
		Shards:          func(string) int { return 16 },
		Timeout: func(tier string) time.Duration {
			if tier == "thorough" {
				return 120 * time.Minute
			}
			return 15 * time.Minute
		},
		Run: runC20,
	})
}
