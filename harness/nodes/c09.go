package nodes

import (
	"bufio"
	"fmt"
	"net"
	"net/http"
	"os"
	"sort"
	"strings"
	"sync/atomic"
	"time"

	"github.com/gin-gonic/gin"

	"github.com/andydunstall/piko/server/cluster"

	"verif/harness/core"
	"verif/harness/props"
)

// ---- C09: protected ports run no route without a valid token -----------------------------

type c09route struct {
	Port   string `json:"port"` // proxy | upstream | admin
	Method string `json:"method"`
	Path   string `json:"path"`
	Host   string `json:"host"`
	WS     bool   `json:"websocket_handshake"`
	Extra  [][2]string
}

func (r c09route) String() string {
	ws := ""
	if r.WS {
		ws = " (websocket handshake)"
	}
	return fmt.Sprintf("%s %s %s%s", r.Port, r.Method, r.Path, ws)
}

// c09pair is a protected node and its unprotected twin (same routes, used only
// to learn what a route answers when it runs).
type c09pair struct {
	prot, twin *Node
	// sinks that would observe a request that slipped through
	upProt, upTwin   *HTTPUpstream
	fakeAdmin        *http.Server
	fakeAdminHits    atomic.Int64
	fakeAdminAddr    string
	validUpstreamTok string
}

func concretePath(p string) string {
	p = strings.ReplaceAll(p, ":endpointID", "a9")
	p = strings.ReplaceAll(p, ":nodeID", "ghost")
	p = strings.ReplaceAll(p, ":id", "ghost")
	if i := strings.Index(p, "*"); i >= 0 {
		p = p[:i] + "x"
	}
	return p
}

func c09routes(n *Node) []c09route {
	parts := n.Srv.VerifParts()
	var out []c09route
	add := func(port string, ri gin.RoutesInfo) {
		for _, r := range ri {
			rt := c09route{Port: port, Method: r.Method, Path: concretePath(r.Path), Host: "a9.piko.test"}
			switch {
			case strings.Contains(r.Path, "/tcp/") || (port == "upstream" && strings.Contains(r.Path, "/upstream/")):
				rt.WS = true
			case strings.HasSuffix(rt.Path, "/profile") || strings.HasSuffix(rt.Path, "/trace"):
				rt.Path += "?seconds=1"
			}
			out = append(out, rt)
		}
	}
	add("proxy", parts.Proxy.VerifRoutes())
	add("upstream", parts.Upstream.VerifRoutes())
	add("admin", parts.Admin.VerifRoutes())
	// routes that are not in the tables
	out = append(out,
		c09route{Port: "proxy", Method: "GET", Path: "/any/path?x=1", Host: "a9.piko.test"},
		c09route{Port: "proxy", Method: "POST", Path: "/submit", Host: "a9.piko.test"},
		c09route{Port: "proxy", Method: "GET", Path: "/by-header", Host: "127.0.0.1", Extra: [][2]string{{"x-piko-endpoint", "a9"}}},
		c09route{Port: "proxy", Method: "GET", Path: "/", Host: "127.0.0.1"}, // would be 400
		c09route{Port: "proxy", Method: "DELETE", Path: "/_piko/v1/tcp/a9", Host: "a9.piko.test"},
		c09route{Port: "proxy", Method: "GET", Path: "/_piko/unknown", Host: "a9.piko.test"},
		c09route{Port: "upstream", Method: "GET", Path: "/", Host: "x"},
		c09route{Port: "upstream", Method: "POST", Path: "/piko/v1/upstream/a9", Host: "x"},
		c09route{Port: "upstream", Method: "GET", Path: "/piko/v1/upstream/a9", Host: "x"}, // without the handshake headers
		c09route{Port: "admin", Method: "GET", Path: "/no/such/route", Host: "x"},
		c09route{Port: "admin", Method: "POST", Path: "/health", Host: "x"},
		c09route{Port: "admin", Method: "GET", Path: "/status/cluster/nodes?forward=ghost", Host: "x"},
		c09route{Port: "admin", Method: "GET", Path: "/metrics?forward=ghost", Host: "x"},
		c09route{Port: "admin", Method: "GET", Path: "/health?forward=unknown-node", Host: "x"},
	)
	sort.SliceStable(out, func(i, j int) bool { return out[i].String() < out[j].String() })
	return out
}

func (p *c09pair) addr(n *Node, port string) string {
	switch port {
	case "proxy":
		return n.ProxyAddr()
	case "upstream":
		return n.UpstreamAddr()
	}
	return n.AdminAddr()
}

func (p *c09pair) send(n *Node, rt c09route, tok [][2]string) (int, error) {
	hs := append(append([][2]string{}, rt.Extra...), tok...)
	raw := BuildRequest(rt.Method, rt.Path, rt.Host, hs, nil, false)
	if rt.WS {
		hs = append(hs, [2]string{"Upgrade", "websocket"}, [2]string{"Connection", "Upgrade"},
			[2]string{"Sec-WebSocket-Version", "13"}, [2]string{"Sec-WebSocket-Key", "dGhlIHNhbXBsZSBub25jZQ=="})
		raw = []byte(strings.Replace(string(BuildRequest(rt.Method, rt.Path, rt.Host, hs, nil, false)), "Connection: close\r\n", "", 1))
	}
	if rt.WS && rt.Port == "upstream" {
		// hold an accepted handshake open until the server has registered the
		// upstream, so its (asynchronous) deregistration cannot blur a later case
		c, err := net.DialTimeout("tcp", p.addr(n, rt.Port), 10*time.Second)
		if err != nil {
			return 0, err
		}
		defer c.Close()
		_ = c.SetDeadline(time.Now().Add(30 * time.Second))
		if _, err := c.Write(raw); err != nil {
			return 0, err
		}
		resp, err := http.ReadResponse(bufio.NewReader(c), &http.Request{Method: rt.Method})
		if err != nil {
			return 0, err
		}
		if resp.StatusCode == 101 {
			core.WaitUntil(5*time.Second, time.Millisecond, func() bool { return n.Cluster().LocalNode().Endpoints["a9"] >= 2 })
		}
		return resp.StatusCode, nil
	}
	resp, err := RawRequest(p.addr(n, rt.Port), raw, rt.Method, 30*time.Second)
	if err != nil && resp == nil {
		return 0, err
	}
	return resp.Status, nil
}

func newC09Pair(ks *keyset, a authSetup) (*c09pair, error) {
	p := &c09pair{}
	conf := a.config(ks)
	var err error
	if p.prot, err = StartNode(NodeOpts{ID: "prot", ProxyAuth: conf, UpstreamAuth: conf, AdminAuth: conf, GossipInterval: 100 * time.Millisecond}); err != nil {
		return nil, err
	}
	if p.twin, err = StartNode(NodeOpts{ID: "twin", GossipInterval: 100 * time.Millisecond}); err != nil {
		return nil, err
	}
	// a recording sink behind the admin forward
	mux := http.NewServeMux()
	mux.HandleFunc("/", func(w http.ResponseWriter, r *http.Request) {
		p.fakeAdminHits.Add(1)
		w.WriteHeader(200)
		_, _ = w.Write([]byte("ghost admin"))
	})
	ln, err := listenLoopback()
	if err != nil {
		return nil, err
	}
	p.fakeAdmin = &http.Server{Handler: mux}
	go func() { _ = p.fakeAdmin.Serve(ln) }()
	p.fakeAdminAddr = ln.Addr().String()
	for _, n := range []*Node{p.prot, p.twin} {
		n.Cluster().AddNode(&cluster.Node{ID: "ghost", Status: cluster.NodeStatusActive, ProxyAddr: p.fakeAdminAddr, AdminAddr: p.fakeAdminAddr})
	}
	// the recording upstream, connected with a valid token
	toks := tokenMatrix(ks, a, nil)
	for _, t := range toks {
		if t.Valid && len(t.Headers) == 1 && t.Headers[0][0] == "Authorization" {
			p.validUpstreamTok = strings.TrimPrefix(t.Headers[0][1], "Bearer ")
			break
		}
	}
	if p.upProt, err = ListenHTTP(p.prot, "a9", "sink", ListenOpts{Token: p.validUpstreamTok}); err != nil {
		return nil, fmt.Errorf("valid token refused on the upstream port: %w", err)
	}
	if p.upTwin, err = ListenHTTP(p.twin, "a9", "sink", ListenOpts{}); err != nil {
		return nil, err
	}
	if !core.WaitUntil(20*time.Second, 5*time.Millisecond, func() bool {
		return p.prot.Cluster().LocalNode().Endpoints["a9"] == 1 && p.twin.Cluster().LocalNode().Endpoints["a9"] == 1
	}) {
		return nil, fmt.Errorf("sink upstreams did not register")
	}
	return p, nil
}

func (p *c09pair) close() {
	p.upProt.Shutdown()
	p.upTwin.Shutdown()
	_ = p.fakeAdmin.Close()
	StopAll([]*Node{p.prot, p.twin})
}

func c09Setups() []authSetup {
	var out []authSetup
	for _, s := range []authSetup{
		{Name: "hmac", HS: true},
		{Name: "rsa", RS: true},
		{Name: "ecdsa", ES: true},
		{Name: "hmac+rsa+ecdsa", HS: true, RS: true, ES: true},
		{Name: "jwks(rsa+ec)", JWKS: true},
		{Name: "rsa+ecdsa", RS: true, ES: true},
	} {
		out = append(out, s)
		s2 := s
		s2.Name += "+aud+iss"
		s2.Audience, s2.Issuer = "piko-c09", "issuer-c09"
		out = append(out, s2)
	}
	return out
}

func runC09Setup(sh *core.Shard, ks *keyset, a authSetup) (complete bool) {
	p, err := newC09Pair(ks, a)
	if err != nil {
		if strings.Contains(err.Error(), "valid token refused") {
			sh.Violate("valid-token-refused", fmt.Sprintf("key configuration %s: %v", a.Name, err), a)
			return false
		}
		sh.Inconcl("C09 pair %s: %v", a.Name, err)
		return false
	}
	defer p.close()
	routes := c09routes(p.prot)
	tokens := tokenMatrix(ks, a, nil)
	sh.Count("routes", int64(len(routes)))
	sh.Count("token_variants", int64(len(tokens)))
	sinks := func() int64 { return p.upProt.Requests.Load() + p.fakeAdminHits.Load() }
	for _, rt := range routes {
		twinStatus, err := p.send(p.twin, rt, nil)
		if err != nil {
			sh.Inconcl("twin %s: %v", rt, err)
			complete = false
			continue
		}
		if twinStatus == 401 {
			sh.Note("route %s answers 401 without authentication configured; skipped", rt)
			continue
		}
		for _, tc := range tokens {
			// quiescent registry: a previous valid handshake registered an upstream
			// that is deregistered asynchronously once our client hung up
			if !core.WaitUntil(20*time.Second, 2*time.Millisecond, func() bool {
				eps := p.prot.Cluster().LocalNode().Endpoints
				return len(eps) == 1 && eps["a9"] == 1
			}) {
				sh.Inconcl("registry did not return to the baseline: %v", p.prot.Cluster().LocalNode().Endpoints)
				return false
			}
			before := sinks()
			regBefore := p.prot.Cluster().LocalNode().Endpoints["a9"]
			status, err := p.send(p.prot, rt, tc.Headers)
			sh.Eval()
			sh.Count("requests", 1)
			if err != nil {
				sh.Inconcl("%s with %q: %v", rt, tc.Name, err)
				continue
			}
			desc := fmt.Sprintf("key configuration %s, route %s, token: %s", a.Name, rt, tc.Name)
			if tc.Valid {
				sh.Count("valid_token_requests", 1)
				if status == 401 {
					sh.Violate("valid-token-refused", desc+": answered 401", map[string]any{"setup": a, "route": rt, "token": tc.Name})
					return false
				}
				if status != twinStatus {
					sh.Violate("valid-token-different-outcome", fmt.Sprintf("%s: answered %d, the same route without authentication answers %d", desc, status, twinStatus), map[string]any{"setup": a, "route": rt, "token": tc.Name})
					return false
				}
				sh.Nontrivial(core.Hash(a.Name, rt.String(), tc.Name))
				continue
			}
			sh.Count("invalid_token_requests", 1)
			if status != 401 {
				sh.Violate("route-ran-without-valid-token", fmt.Sprintf("%s: answered %d instead of 401 (the route answers %d when it runs)", desc, status, twinStatus), map[string]any{"setup": a, "route": rt, "token": tc.Name})
				return false
			}
			if after := sinks(); after != before {
				sh.Violate("request-reached-a-handler", fmt.Sprintf("%s: answered 401 but the request was observed behind the port (upstream/forward sink saw %d requests)", desc, after-before), map[string]any{"setup": a, "route": rt, "token": tc.Name})
				return false
			}
			if reg := p.prot.Cluster().LocalNode().Endpoints["a9"]; reg != regBefore {
				sh.Violate("request-reached-a-handler", fmt.Sprintf("%s: an upstream was registered (%d -> %d)", desc, regBefore, reg), map[string]any{"setup": a, "route": rt, "token": tc.Name})
				return false
			}
			sh.Nontrivial(core.Hash(a.Name, rt.String(), tc.Name))
		}
	}
	return true
}

func runC09(sh *core.Shard, a props.Args) {
	dir, err := os.MkdirTemp("", "c09")
	if err != nil {
		sh.Inconcl("tempdir: %v", err)
		return
	}
	defer os.RemoveAll(dir)
	ks, err := newKeyset(dir)
	if err != nil {
		sh.Inconcl("keys: %v", err)
		return
	}
	all := true
	for i, s := range c09Setups() {
		if !a.Mine(i) {
			continue
		}
		fmt.Printf("CASE C09 setup=%s\n", s.Name)
		ok := runC09Setup(sh, ks, s)
		all = all && ok
		if i == 0 {
			toks := tokenMatrix(ks, s, nil)
			var names []string
			for _, t := range toks {
				names = append(names, fmt.Sprintf("%s => valid=%v", t.Name, t.Valid))
			}
			sh.Sample(map[string]any{"setup": s, "token_variants": names})
		}
	}
	sh.Exhaustive["route_x_token_matrix"] = all
}

func init() {
	props.Register(&props.Prop{
		ID: "C09", Level: "fault_enumeration", Race: true, Parallel: 6, ExhaustiveWhenAll: true,
		Rule: "per key configuration (HMAC; RSA; ECDSA; HMAC+RSA+ECDSA; RSA+ECDSA; JWKS file with an RSA and an EC key; each with and without audience+issuer = 12 configurations) a fully assembled real node with authentication on the proxy, upstream and admin port, plus an unauthenticated twin used to learn what each route answers when it runs. Routes are read from the three running gin engines (so new routes are covered) plus no-route paths, other methods, the upstream and TCP WebSocket handshakes and admin ?forward= to another node; ~70 token variations per configuration: every algorithm of every family with the configured and with another key, missing/Basic/lower-case/Token/empty/double schemes, alg=none in four spellings, HS256/384/512 signed with the public-key PEM, the modulus, an empty key and a zero byte (algorithm confusion), one character changed per segment, truncated, extra segment, expired, not-yet-valid, no expiry, wrong/missing/listed audience, wrong/missing issuer, JWKS unknown/missing/cross-family kid, x-piko-authorization vs Authorization precedence both ways, tenant header without tenants. Oracle: a non-valid token gets 401, and nothing is observed behind the port (recording upstream, recording forward target, upstream registry unchanged); a valid token gets exactly the status the twin gives. The route x token x configuration matrix is enumerated completely in both tiers. Distinct = one per (configuration, route, token).",
		Assumptions: []string{
			"expiry/nbf use the wall clock with two-minute margins, so no verdict depends on sub-second timing",
			"'reaches no handler' is observed through sinks behind each port (upstream, forward target, registry), not by instrumenting handlers",
		},
		RequireCounters: []string{"valid_token_requests", "invalid_token_requests", "routes", "token_variants"},
		Shards:          func(string) int { return 12 },
		Run:             runC09,
	})
}
