package nodes

import (
	"bufio"
	"os"
	"strconv"
	"bytes"
	"compress/gzip"
	"crypto/sha256"
	"fmt"
	"io"
	"math/rand"
	"net"
	"net/http"
	"net/textproto"
	"sort"
	"strings"
	"sync"
	"time"

	agentconfig "github.com/andydunstall/piko/agent/config"
	"github.com/andydunstall/piko/agent/reverseproxy"
	"github.com/andydunstall/piko/pkg/log"
	"github.com/andydunstall/piko/server/cluster"
	"github.com/andydunstall/piko/server/config"

	"verif/harness/core"
	"verif/harness/props"
)

// ---- C08: HTTP proxying is transparent; gateway failures map to 400/502/504 ---------------
//
// The upstream is a raw responder on a piko listener: it records the request
// head byte-for-byte, reads the body according to the framing it received and
// writes a scripted raw response, so both directions are compared against
// exactly what was put on the wire.

type c08script struct {
	Behavior string      `json:"behavior"` // respond | hang | delay | close-now | close-mid-headers | upgrade
	DelayMs  int         `json:"delay_ms,omitempty"`
	Status   int         `json:"status"`
	Headers  [][2]string `json:"headers"`
	Body     []byte      `json:"-"`
	BodyLen  int         `json:"body_len"`
	Chunked  bool        `json:"chunked"`
	Gzip     bool        `json:"gzip_if_accepted"`
}

type c08seen struct {
	Head   []byte
	Req    *http.Request
	Body   []byte
	GzipOK bool
}

type rawUpstream struct {
	ln      net.Listener
	mu      sync.Mutex
	scripts map[string]*c08script
	seen    map[string]*c08seen
	conns   map[net.Conn]struct{}
}

func newRawUpstream(n *Node, endpoint string) (*rawUpstream, error) {
	ln, err := listen(n, endpoint, ListenOpts{})
	if err != nil {
		return nil, err
	}
	return serveRaw(ln), nil
}

// newRawOrigin: the same recording responder on a plain loopback TCP port (the
// service behind a piko agent's HTTP reverse proxy).
func newRawOrigin() (*rawUpstream, error) {
	ln, err := net.Listen("tcp", "127.0.0.1:0")
	if err != nil {
		return nil, err
	}
	return serveRaw(ln), nil
}

// startAgentHTTP runs the agent's real HTTP reverse proxy (what `piko agent http`
// serves on its listener) for endpoint on node n, forwarding to originAddr.
func startAgentHTTP(n *Node, endpoint, originAddr string, timeout time.Duration) (*reverseproxy.Server, error) {
	ln, err := listen(n, endpoint, ListenOpts{})
	if err != nil {
		return nil, err
	}
	srv := reverseproxy.NewServer(agentconfig.ListenerConfig{EndpointID: endpoint, Addr: originAddr,
		Protocol: agentconfig.ListenerProtocolHTTP, Timeout: timeout, AccessLog: log.AccessLogConfig{Level: "info"}}, reverseproxy.NewMetrics("proxy"), log.NewNopLogger())
	go func() { _ = srv.Serve(ln) }()
	return srv, nil
}

func serveRaw(ln net.Listener) *rawUpstream {
	u := &rawUpstream{ln: ln, scripts: map[string]*c08script{}, seen: map[string]*c08seen{}, conns: map[net.Conn]struct{}{}}
	go func() {
		for {
			c, err := ln.Accept()
			if err != nil {
				return
			}
			go u.handle(c)
		}
	}()
	return u
}

func (u *rawUpstream) script(id string, s *c08script) {
	u.mu.Lock()
	u.scripts[id] = s
	u.mu.Unlock()
}

func (u *rawUpstream) take(id string) *c08seen {
	u.mu.Lock()
	defer u.mu.Unlock()
	s := u.seen[id]
	delete(u.seen, id)
	delete(u.scripts, id)
	return s
}

func (u *rawUpstream) handle(c net.Conn) {
	defer c.Close()
	_ = c.SetDeadline(time.Now().Add(60 * time.Second))
	br := bufio.NewReaderSize(c, 1<<16)
	// read the head verbatim
	var head bytes.Buffer
	for {
		line, err := br.ReadBytes('\n')
		head.Write(line)
		if err != nil {
			return
		}
		if len(line) <= 2 && (string(line) == "\r\n" || string(line) == "\n") {
			break
		}
		if head.Len() > 1<<20 {
			return
		}
	}
	req, err := http.ReadRequest(bufio.NewReader(io.MultiReader(bytes.NewReader(head.Bytes()), br)))
	if err != nil {
		return
	}
	id := req.Header.Get("X-Case")
	u.mu.Lock()
	sc := u.scripts[id]
	u.mu.Unlock()
	if sc == nil {
		fmt.Fprintf(c, "HTTP/1.1 599 no script\r\nContent-Length: 0\r\nConnection: close\r\n\r\n")
		return
	}
	if sc.Behavior == "close-now" {
		return
	}
	if sc.Behavior == "stall" {
		// stops reading after the head: neither consumes the body nor answers
		time.Sleep(15 * time.Second)
		return
	}
	body, _ := io.ReadAll(req.Body)
	gz := strings.Contains(req.Header.Get("Accept-Encoding"), "gzip")
	u.mu.Lock()
	u.seen[id] = &c08seen{Head: append([]byte(nil), head.Bytes()...), Req: req, Body: body, GzipOK: gz}
	u.mu.Unlock()
	switch sc.Behavior {
	case "hang":
		buf := make([]byte, 1)
		_ = c.SetDeadline(time.Now().Add(30 * time.Second))
		_, _ = c.Read(buf) // until the proxy gives up and closes
		return
	case "delay":
		time.Sleep(time.Duration(sc.DelayMs) * time.Millisecond)
	case "close-mid-headers":
		fmt.Fprintf(c, "HTTP/1.1 200 OK\r\nX-Partial: yes\r\nContent-Le")
		return
	case "upgrade":
		time.Sleep(time.Duration(sc.DelayMs) * time.Millisecond)
		fmt.Fprintf(c, "HTTP/1.1 101 Switching Protocols\r\nUpgrade: %s\r\nConnection: Upgrade\r\n\r\n", req.Header.Get("Upgrade"))
		// echo
		_ = c.SetDeadline(time.Now().Add(30 * time.Second))
		_, _ = io.Copy(c, br)
		return
	}
	// scripted response, written raw
	var out bytes.Buffer
	fmt.Fprintf(&out, "HTTP/1.1 %d %s\r\n", sc.Status, http.StatusText(sc.Status))
	payload := sc.Body
	encoded := false
	noBody := req.Method == "HEAD" || sc.Status == 204 || sc.Status == 304
	if sc.Gzip && gz && len(payload) > 0 && !noBody {
		var zb bytes.Buffer
		zw := gzip.NewWriter(&zb)
		_, _ = zw.Write(payload)
		_ = zw.Close()
		payload = zb.Bytes()
		encoded = true
	}
	for _, h := range sc.Headers {
		fmt.Fprintf(&out, "%s: %s\r\n", h[0], h[1])
	}
	if encoded {
		out.WriteString("Content-Encoding: gzip\r\n")
	}
	switch {
	case noBody:
		if sc.Status != 204 && sc.Status != 304 {
			fmt.Fprintf(&out, "Content-Length: %d\r\n", len(payload))
		}
		out.WriteString("Connection: close\r\n\r\n")
	case sc.Chunked:
		out.WriteString("Transfer-Encoding: chunked\r\nConnection: close\r\n\r\n")
		rest := payload
		for len(rest) > 0 {
			n := 1 + (len(rest)*13)%3000
			if n > len(rest) {
				n = len(rest)
			}
			fmt.Fprintf(&out, "%x\r\n", n)
			out.Write(rest[:n])
			out.WriteString("\r\n")
			rest = rest[n:]
		}
		out.WriteString("0\r\n\r\n")
	default:
		fmt.Fprintf(&out, "Content-Length: %d\r\nConnection: close\r\n\r\n", len(payload))
		out.Write(payload)
	}
	_, _ = c.Write(out.Bytes())
}

// ---- generators ------------------------------------------------------------------------

var c08Methods = []string{"GET", "GET", "POST", "PUT", "DELETE", "HEAD", "OPTIONS", "PATCH", "PURGE"}

var c08PathBits = []string{"a", "b%2Fc", "x%20y", "%C3%A9", "%E2%82%AC", "..", ".", "", "p;v=1", "q+r", "~user", "%25", "%3F", "%23", "a:b", "@", "!$&'()*,="}

func c08Target(r *rand.Rand) string {
	var sb strings.Builder
	n := 1 + r.Intn(5)
	for i := 0; i < n; i++ {
		sb.WriteByte('/')
		sb.WriteString(c08PathBits[r.Intn(len(c08PathBits))])
	}
	if r.Intn(4) == 0 {
		sb.WriteByte('/')
	}
	switch r.Intn(6) {
	case 0:
		sb.WriteString("?")
	case 1:
		sb.WriteString("?a=1&b=2")
	case 2:
		sb.WriteString("?q=x+y&&empty=&k=%26%3D&u=%C3%BC")
	case 3:
		sb.WriteString("?a=1;b=2&c=%2F")
	}
	return sb.String()
}

var c08HeaderNames = []string{"X-A", "x-lower", "X-MiXeD-Case", "Accept", "Accept-Language", "Cookie", "Cookie", "X-Dup", "X-Dup", "X-Empty", "Authorization", "Referer", "If-None-Match", "Cache-Control", "X-Forwarded-Proto", "Content-Type", "Range", "X-Long"}

func c08Headers(r *rand.Rand) [][2]string {
	var hs [][2]string
	n := r.Intn(31)
	for i := 0; i < n; i++ {
		name := c08HeaderNames[r.Intn(len(c08HeaderNames))]
		var v string
		switch {
		case name == "X-Empty":
			v = ""
		case name == "X-Long":
			v = strings.Repeat("v", 200+r.Intn(3000))
		case name == "Cookie":
			v = fmt.Sprintf("k%d=v%d; s=%d", r.Intn(9), r.Intn(9), r.Intn(9))
		case name == "Range":
			v = "bytes=0-99999999"
		default:
			v = fmt.Sprintf("v%d, w%d;q=0.%d", r.Intn(100), r.Intn(100), r.Intn(9))
		}
		hs = append(hs, [2]string{name, v})
	}
	switch r.Intn(6) {
	case 0:
		hs = append(hs, [2]string{"User-Agent", "c08/1.0 (test)"})
	case 1:
		hs = append(hs, [2]string{"Accept-Encoding", "gzip"})
	case 2:
		hs = append(hs, [2]string{"Accept-Encoding", "identity"}, [2]string{"User-Agent", ""})
	case 3:
		hs = append(hs, [2]string{"X-Forwarded-For", "203.0.113.7"})
	}
	return hs
}

var c08RespHeaderNames = []string{"X-R", "Set-Cookie", "Set-Cookie", "Cache-Control", "ETag", "Vary", "X-Dup", "X-Dup", "Location", "Content-Type", "X-Empty", "Content-Language", "Www-Authenticate"}

func c08Script(r *rand.Rand, maxBody int) *c08script {
	sc := &c08script{Behavior: "respond"}
	sc.Status = []int{200, 200, 200, 201, 202, 204, 206, 301, 302, 304, 400, 401, 403, 404, 409, 418, 429, 500, 502, 503, 504, 599}[r.Intn(22)]
	n := r.Intn(12)
	for i := 0; i < n; i++ {
		name := c08RespHeaderNames[r.Intn(len(c08RespHeaderNames))]
		v := fmt.Sprintf("r%d=%d; Path=/", r.Intn(50), r.Intn(50))
		switch name {
		case "X-Empty":
			v = ""
		case "Content-Type":
			v = []string{"application/json", "text/html; charset=utf-8", "application/octet-stream"}[r.Intn(3)]
		case "Location":
			v = "/elsewhere?x=%2F"
		}
		sc.Headers = append(sc.Headers, [2]string{name, v})
	}
	// exactly one Content-Type so net/http's sniffing never adds one
	has := false
	out := sc.Headers[:0]
	for _, h := range sc.Headers {
		if h[0] == "Content-Type" {
			if has {
				continue
			}
			has = true
		}
		out = append(out, h)
	}
	sc.Headers = out
	if !has {
		sc.Headers = append(sc.Headers, [2]string{"Content-Type", "application/x-c08"})
	}
	if sc.Status == 304 {
		// a 304 carries no representation metadata (net/http strips
		// Content-Type/Content-Length from it, as RFC 9110 allows)
		out := sc.Headers[:0]
		for _, h := range sc.Headers {
			if h[0] != "Content-Type" {
				out = append(out, h)
			}
		}
		sc.Headers = out
	}
	switch r.Intn(6) {
	case 0:
	case 1:
		sc.BodyLen = 1 + r.Intn(100)
	case 2, 3:
		sc.BodyLen = r.Intn(20000)
	default:
		sc.BodyLen = r.Intn(maxBody)
	}
	sc.Body = make([]byte, sc.BodyLen)
	if r.Intn(2) == 0 {
		r.Read(sc.Body)
	} else {
		for i := range sc.Body {
			sc.Body[i] = "hello world "[i%12]
		}
	}
	sc.Chunked = r.Intn(3) == 0
	sc.Gzip = r.Intn(3) == 0
	return sc
}

var hopByHop = map[string]bool{"Connection": true, "Keep-Alive": true, "Proxy-Connection": true, "Te": true, "Trailer": true,
	"Transfer-Encoding": true, "Upgrade": true, "Proxy-Authenticate": true, "Proxy-Authorization": true}

func headerMap(hs [][2]string) map[string][]string {
	m := map[string][]string{}
	for _, h := range hs {
		k := textproto.CanonicalMIMEHeaderKey(h[0])
		m[k] = append(m[k], h[1])
	}
	return m
}

func sameList(a, b []string) bool {
	if len(a) != len(b) {
		return false
	}
	for i := range a {
		if strings.TrimSpace(a[i]) != strings.TrimSpace(b[i]) {
			return false
		}
	}
	return true
}

type c08case struct {
	ID      string      `json:"id"`
	Via     string      `json:"via"` // local | forwarded
	Method  string      `json:"method"`
	Target  string      `json:"target"`
	Host    string      `json:"host"`
	Headers [][2]string `json:"headers"`
	BodyLen int         `json:"body_len"`
	Chunked bool        `json:"chunked_request"`
	Script  *c08script  `json:"upstream_script"`
}

type c08rig struct {
	nodes   []*Node
	up      *rawUpstream
	timeout time.Duration
	// the agent path: endpoint "c08a" on node 0 is served by the agent's real HTTP
	// reverse proxy, which forwards to a raw recording origin on plain TCP
	origin *rawUpstream
	agent  *reverseproxy.Server
}

// recorder returns the responder that terminates requests sent on the given path.
func (rg *c08rig) recorder(via string) *rawUpstream {
	if strings.HasPrefix(via, "agent") {
		return rg.origin
	}
	return rg.up
}

func newC08Rig(timeout time.Duration) (*c08rig, error) {
	return newC08RigAsym(timeout, timeout)
}

// newC08RigAsym: the node holding the upstream (node 0) and the other node
// (node 1, the entry of forwarded requests) may be configured with different
// proxy timeouts; rg.timeout is the entry node's.
func newC08RigAsym(ownerTimeout, timeout time.Duration) (*c08rig, error) {
	nodes, err := StartCluster(2, func(i int) NodeOpts {
		timeout := timeout
		if i == 0 {
			timeout = ownerTimeout
		}
		// 400 ms gossip interval: the failure detector then needs ~8 s of silence to
		// suspect the other node, which a loaded machine does not produce by accident
		return NodeOpts{ProxyTimeout: timeout, GossipInterval: 400 * time.Millisecond, Mutate: func(c *config.Config) {
			// piko's default 10 s read/write timeouts on the proxy port cut a
			// multi-megabyte exchange short when the (race-built, loaded) process
			// is slow; that is the timeouts working, not a transparency matter
			c.Proxy.HTTP.ReadTimeout = 5 * time.Minute
			c.Proxy.HTTP.WriteTimeout = 5 * time.Minute
		}}
	})
	if err != nil {
		return nil, err
	}
	up, err := newRawUpstream(nodes[0], "c08")
	if err != nil {
		return nil, err
	}
	rg := &c08rig{nodes: nodes, up: up, timeout: timeout}
	if rg.origin, err = newRawOrigin(); err != nil {
		return nil, err
	}
	// the agent's own timeout is the owner node's: transparency rigs run with 5 min
	if rg.agent, err = startAgentHTTP(nodes[0], "c08a", rg.origin.ln.Addr().String(), ownerTimeout); err != nil {
		return nil, err
	}
	if !core.WaitUntil(20*time.Second, 5*time.Millisecond, func() bool {
		e := nodes[0].Cluster().LocalNode().Endpoints
		return e["c08"] == 1 && e["c08a"] == 1
	}) {
		return nil, fmt.Errorf("upstream did not register")
	}
	if ok, why := WaitSettled(nodes, 20*time.Second); !ok {
		return nil, fmt.Errorf("not settled: %s", why)
	}
	return rg, nil
}

func (rg *c08rig) entry(via string) *Node {
	if via == "forwarded" || via == "agent-forwarded" {
		return rg.nodes[1]
	}
	return rg.nodes[0]
}

func (rg *c08rig) transparency(c c08case, body []byte, sh *core.Shard) (sig, what string, retry bool) {
	rec := rg.recorder(c.Via)
	rec.script(c.ID, c.Script)
	hs := append([][2]string{{"X-Case", c.ID}}, c.Headers...)
	raw := BuildRequest(c.Method, c.Target, c.Host, hs, body, c.Chunked)
	t0 := time.Now()
	// transparency is not a timing matter (the failure matrix decides "never a
	// hang" with its own short timeouts): a multi-megabyte exchange through two
	// race-built proxies on a starved machine has taken more than 15 s
	resp, err := RawRequest(rg.entry(c.Via).ProxyAddr(), raw, c.Method, 5*time.Minute)
	seen := rec.take(c.ID)
	if err != nil {
		if time.Since(t0) >= 299*time.Second {
			return "hang", fmt.Sprintf("request %s got no complete response within 5 min: %v", c.ID, err), false
		}
		partial := 0
		if resp != nil {
			partial = resp.Status
		}
		if seen == nil && time.Since(t0) < 2*time.Second && len(body) > 100000 {
			// refused at once while the client was still sending a large body (the
			// gateway answered - e.g. 502 while the other node was suspected - and closed;
			// the reset swallowed the answer): same handling as a 502 without delivery
			return "", "", true
		}
		return "client-error", fmt.Sprintf("request %s: %v (after %s; response status so far %d; the upstream saw the request: %v)", c.ID, err, time.Since(t0).Round(time.Millisecond), partial, seen != nil), false
	}
	if seen == nil {
		if resp.Status == 502 || resp.Status == 504 {
			return "", "", true // routing hiccup (node suspected under load); caller re-settles
		}
		return "not-delivered", fmt.Sprintf("request %s was answered %d but never reached the upstream", c.ID, resp.Status), false
	}
	// ---- request side
	rq := seen.Req
	if rq.Method != c.Method {
		return "method-changed", fmt.Sprintf("sent method %q, upstream saw %q", c.Method, rq.Method), false
	}
	if rq.RequestURI != c.Target {
		return "target-changed", fmt.Sprintf("sent request target %q, upstream saw %q", c.Target, rq.RequestURI), false
	}
	if rq.Host != c.Host {
		return "host-changed", fmt.Sprintf("sent Host %q, upstream saw %q", c.Host, rq.Host), false
	}
	if !bytes.Equal(seen.Body, body) {
		return "request-body-changed", fmt.Sprintf("sent %d body bytes (sha %x), upstream read %d (sha %x)", len(body), sha256.Sum256(body), len(seen.Body), sha256.Sum256(seen.Body)), false
	}
	sent := headerMap(hs)
	got := map[string][]string(rq.Header)
	for k, vs := range sent {
		if hopByHop[k] {
			continue
		}
		if k == "User-Agent" && len(vs) == 1 && vs[0] == "" {
			continue
		}
		gv := got[k]
		if k == "X-Forwarded-For" {
			// the proxy appends the client address to the existing value
			if len(gv) != 1 || !strings.HasPrefix(gv[0], strings.Join(vs, ", ")+", ") {
				return "request-header-changed", fmt.Sprintf("X-Forwarded-For sent %q, upstream saw %q", vs, gv), false
			}
			continue
		}
		if !sameList(vs, gv) {
			return "request-header-changed", fmt.Sprintf("header %s sent as %q, upstream saw %q", k, vs, gv), false
		}
	}
	for k, gv := range got {
		if _, ok := sent[k]; ok || hopByHop[k] {
			continue
		}
		switch k {
		case "X-Forwarded-For", "X-Piko-Forward", "Content-Length", "Transfer-Encoding":
		case "Accept-Encoding":
			if !sameList(gv, []string{"gzip"}) {
				return "request-header-fabricated", fmt.Sprintf("upstream saw Accept-Encoding %q which the client did not send", gv), false
			}
		case "User-Agent":
			return "request-header-fabricated", fmt.Sprintf("upstream saw User-Agent %q although the client sent none", gv), false
		default:
			return "request-header-fabricated", fmt.Sprintf("upstream saw header %s: %q which the client did not send", k, gv), false
		}
	}
	// ---- response side
	sc := c.Script
	if resp.Status == 504 && sc.Status != 504 && time.Since(t0) >= rg.timeout {
		// the gateway's own timeout expired although this rig's is 5 min: the machine
		// is overloaded; that is the timeout working, not a transparency matter.
		// Retried; a gateway that keeps answering 504 is reported by the caller.
		sh.Count("gateway_timeouts_under_load", 1)
		return "", "", true
	}
	if resp.Status != sc.Status {
		return "status-changed", fmt.Sprintf("upstream answered %d, client received %d", sc.Status, resp.Status), false
	}
	want := headerMap(sc.Headers)
	clientAskedGzip := false
	for _, h := range c.Headers {
		if strings.EqualFold(h[0], "Accept-Encoding") && strings.Contains(h[1], "gzip") {
			clientAskedGzip = true
		}
	}
	noBody := c.Method == "HEAD" || sc.Status == 204 || sc.Status == 304
	encoded := sc.Gzip && seen.GzipOK && sc.BodyLen > 0 && !noBody
	if encoded && clientAskedGzip {
		want["Content-Encoding"] = []string{"gzip"}
	}
	for k, vs := range want {
		if hopByHop[k] {
			continue
		}
		if !sameList(vs, resp.Header[k]) {
			return "response-header-changed", fmt.Sprintf("upstream sent %s: %q, client received %q", k, vs, resp.Header[k]), false
		}
	}
	for k, gv := range resp.Header {
		if _, ok := want[k]; ok || hopByHop[k] {
			continue
		}
		switch k {
		case "Date", "Content-Length", "Transfer-Encoding", "Connection":
		default:
			return "response-header-fabricated", fmt.Sprintf("client received header %s: %q which the upstream did not send", k, gv), false
		}
	}
	if !noBody {
		wantBody := sc.Body
		if encoded && clientAskedGzip {
			zr, err := gzip.NewReader(bytes.NewReader(resp.Body))
			if err != nil {
				return "response-body-changed", fmt.Sprintf("client asked for gzip and the upstream sent gzip but the body does not decode: %v", err), false
			}
			dec, _ := io.ReadAll(zr)
			if !bytes.Equal(dec, wantBody) {
				return "response-body-changed", "gzip body differs after decoding", false
			}
		} else if !bytes.Equal(resp.Body, wantBody) {
			return "response-body-changed", fmt.Sprintf("upstream sent %d body bytes (sha %x), client received %d (sha %x)", len(wantBody), sha256.Sum256(wantBody), len(resp.Body), sha256.Sum256(resp.Body)), false
		}
		if encoded && !clientAskedGzip {
			sh.Count("gzip_transparently_decoded", 1)
		}
	} else if len(resp.Body) != 0 {
		return "response-body-changed", fmt.Sprintf("a %s/%d response carried %d body bytes", c.Method, sc.Status, len(resp.Body)), false
	}
	return "", "", false
}

// ---- the failure matrix ------------------------------------------------------------------

type c08fault struct {
	Name   string
	Via    string
	Expect int
}

func (rg *c08rig) faultMatrix(sh *core.Shard) (sig, what string) {
	tmo := rg.timeout
	var check func(name string, raw []byte, addr string, want int, minT, maxT time.Duration) (string, string)
	slowRetries := 0
	check = func(name string, raw []byte, addr string, want int, minT, maxT time.Duration) (string, string) {
		t0 := time.Now()
		resp, err := RawRequest(addr, raw, "GET", 20*time.Second)
		el := time.Since(t0)
		sh.Count("fault_cases", 1)
		if err == nil && want == 200 && resp.Status == 504 && el >= tmo && slowRetries < 3 {
			// a 504 no earlier than the timeout is the timeout working: on a starved
			// machine the 100 ms answer took longer than 400 ms to get through. Repeated;
			// a gateway that keeps timing out on a fast upstream is reported.
			slowRetries++
			sh.Count("gateway_timeouts_under_load", 1)
			time.Sleep(200 * time.Millisecond)
			return check(name, raw, addr, want, minT, maxT)
		}
		if err != nil {
			if el >= 19*time.Second {
				return "hang", fmt.Sprintf("fault case %q: no response within 20 s (%v)", name, err)
			}
			return "fault-no-response", fmt.Sprintf("fault case %q: %v after %s (expected status %d)", name, err, el, want)
		}
		if resp.Status != want {
			return "fault-wrong-status", fmt.Sprintf("fault case %q: got %d, expected %d (body %q)", name, resp.Status, want, clipBytes(resp.Body))
		}
		if el < minT {
			return "fault-too-early", fmt.Sprintf("fault case %q: %d after %s, earlier than the configured timeout %s", name, resp.Status, el, tmo)
		}
		if el > maxT {
			return "fault-too-late", fmt.Sprintf("fault case %q: %d only after %s (timeout %s)", name, resp.Status, el, tmo)
		}
		return "", ""
	}
	n0, n1 := rg.nodes[0], rg.nodes[1]
	long := 20 * time.Second
	for _, via := range []string{"local", "forwarded"} {
		addr := rg.entry(via).ProxyAddr()
		// 400: no endpoint derivable
		for i, host := range []string{"127.0.0.1:8000", "localhost", "singlelabel:80", "[::1]:9", ""} {
			name := fmt.Sprintf("no endpoint: Host %q via %s", host, via)
			raw := BuildRequest("GET", "/", host, nil, nil, false)
			if host == "" {
				raw = []byte("GET / HTTP/1.0\r\n\r\n")
			}
			if s, w := check(name, raw, addr, 400, 0, long); s != "" {
				return s, w
			}
			_ = i
		}
		// 502: nobody serves it
		if s, w := check("no upstream anywhere via "+via, BuildRequest("GET", "/", "nobody.piko.test", nil, nil, false), addr, 502, 0, long); s != "" {
			return s, w
		}
		mk := func(id string, sc *c08script, extra ...[2]string) []byte {
			rg.up.script(id, sc)
			hs := append([][2]string{{"X-Case", id}}, extra...)
			return BuildRequest("GET", "/fault", "c08.piko.test", hs, nil, false)
		}
		id := func(s string) string { return s + "-" + via }
		// 504: never answers / answers too late
		if s, w := check("upstream never answers via "+via, mk(id("hang"), &c08script{Behavior: "hang"}), addr, 504, tmo-20*time.Millisecond, tmo+5*time.Second); s != "" {
			return s, w
		}
		if s, w := check("upstream answers after the timeout via "+via, mk(id("late"), &c08script{Behavior: "delay", DelayMs: int(tmo/time.Millisecond) * 3, Status: 200}), addr, 504, tmo-20*time.Millisecond, tmo+5*time.Second); s != "" {
			return s, w
		}
		// 200: slow but inside the timeout
		if s, w := check("upstream answers inside the timeout via "+via, mk(id("slow-ok"), &c08script{Behavior: "delay", DelayMs: int(tmo/time.Millisecond) / 4, Status: 200}), addr, 200, 0, long); s != "" {
			return s, w
		}
		// 502: closes early
		if s, w := check("upstream closes at once via "+via, mk(id("close-now"), &c08script{Behavior: "close-now"}), addr, 502, 0, long); s != "" {
			return s, w
		}
		if s, w := check("upstream closes mid-headers via "+via, mk(id("mid"), &c08script{Behavior: "close-mid-headers"}), addr, 502, 0, long); s != "" {
			return s, w
		}
		// 504 also when the request cannot even be sent completely: the upstream stops
		// reading after the head while the client streams a body far larger than the
		// buffers on the way (the timeout bounds the whole exchange, not only the wait
		// for response headers)
		if s, w := func() (string, string) {
			cid := id("stall")
			rg.up.script(cid, &c08script{Behavior: "stall"})
			defer rg.up.take(cid)
			sh.Count("fault_cases", 1)
			c, err := net.DialTimeout("tcp", addr, 5*time.Second)
			if err != nil {
				return "fault-no-response", "dial: " + err.Error()
			}
			defer c.Close()
			_ = c.SetDeadline(time.Now().Add(25 * time.Second))
			const total = 96 << 20
			fmt.Fprintf(c, "POST /fault HTTP/1.1\r\nHost: c08.piko.test\r\nX-Case: %s\r\nContent-Type: application/octet-stream\r\nContent-Length: %d\r\nConnection: close\r\n\r\n", cid, total)
			t0 := time.Now()
			go func() {
				buf := make([]byte, 64<<10)
				for sent := 0; sent < total; sent += len(buf) {
					if _, err := c.Write(buf); err != nil {
						return
					}
				}
			}()
			resp, err := http.ReadResponse(bufio.NewReader(c), &http.Request{Method: "POST"})
			el := time.Since(t0)
			name := "upstream stops reading a 96 MiB request body via " + via
			if err != nil {
				if el >= 24*time.Second {
					return "hang", fmt.Sprintf("fault case %q: no response within 25 s (%v): the proxy timeout %s did not end the exchange", name, err, tmo)
				}
				return "fault-no-response", fmt.Sprintf("fault case %q: %v after %s (expected status 504)", name, err, el)
			}
			if resp.StatusCode != 504 {
				return "fault-wrong-status", fmt.Sprintf("fault case %q: got %d after %s, expected 504", name, resp.StatusCode, el)
			}
			if el < tmo-20*time.Millisecond || el > tmo+5*time.Second {
				return "fault-too-late", fmt.Sprintf("fault case %q: 504 after %s (timeout %s)", name, el, tmo)
			}
			return "", ""
		}(); s != "" {
			return s, w
		}
		rg.up.take(id("hang"))
		rg.up.take(id("late"))
		rg.up.take(id("slow-ok"))
		rg.up.take(id("mid"))
		// WebSocket upgrades are exempt from the timeout (any case of the token)
		for ti, tok := range []string{"websocket", "WebSocket", "WEBSOCKET", "websocket"} {
			// Connection is a token list: browsers send "keep-alive, Upgrade"
			connHdr := "Upgrade"
			if ti == 3 {
				connHdr = "keep-alive, Upgrade"
			}
			cid := id(fmt.Sprintf("upg-%s-%d", tok, ti))
			usc := &c08script{Behavior: "upgrade"}
			if ti == 1 {
				// the exemption covers the handshake too: a 101 that takes twice the
				// proxy timeout to arrive is still relayed
				usc.DelayMs = 2 * int(tmo/time.Millisecond)
			}
			rg.up.script(cid, usc)
			sh.Count("fault_cases", 1)
			c, err := net.DialTimeout("tcp", addr, 5*time.Second)
			if err != nil {
				return "fault-no-response", "dial: " + err.Error()
			}
			fmt.Fprintf(c, "GET /ws HTTP/1.1\r\nHost: c08.piko.test\r\nX-Case: %s\r\nUpgrade: %s\r\nConnection: %s\r\nSec-WebSocket-Version: 13\r\nSec-WebSocket-Key: dGhlIHNhbXBsZSBub25jZQ==\r\n\r\n", cid, tok, connHdr)
			_ = c.SetDeadline(time.Now().Add(20 * time.Second))
			br := bufio.NewReader(c)
			resp, err := http.ReadResponse(br, &http.Request{Method: "GET"})
			if err != nil || resp.StatusCode != 101 {
				c.Close()
				st := 0
				if resp != nil {
					st = resp.StatusCode
				}
				return "upgrade-failed", fmt.Sprintf("Upgrade: %s (Connection: "+connHdr+") via %s: expected 101 from the upstream, got status %d err %v", tok, via, st, err)
			}
			time.Sleep(4 * tmo) // idle well past the proxy timeout
			msg := "still-open\n"
			_, werr := c.Write([]byte(msg))
			line, rerr := br.ReadString('\n')
			c.Close()
			rg.up.take(cid)
			if werr != nil || rerr != nil || line != msg {
				return "timeout-applied-to-upgrade", fmt.Sprintf("Upgrade: %s (Connection: "+connHdr+") via %s: the upgraded connection did not survive %s idle (proxy timeout %s): write err %v, read %q err %v", tok, via, 4*tmo, tmo, werr, line, rerr)
			}
		}
	}
	// 502: the believed remote node's proxy port is closed
	dead, _ := net.Listen("tcp", "127.0.0.1:0")
	deadAddr := dead.Addr().String()
	dead.Close()
	n1.Cluster().AddNode(&cluster.Node{ID: "ghost", Status: cluster.NodeStatusActive, ProxyAddr: deadAddr, AdminAddr: deadAddr, Endpoints: map[string]int{"ghost-ep": 1}})
	s, w := check("remote node's proxy port is closed", BuildRequest("GET", "/", "ghost-ep.piko.test", nil, nil, false), n1.ProxyAddr(), 502, 0, long)
	n1.Cluster().RemoveNode("ghost")
	if s != "" {
		return s, w
	}
	// 502: the upstream announced go-away
	ga, err := ListenHTTP(n0, "c08-goaway", "ga", ListenOpts{})
	if err == nil {
		core.WaitUntil(10*time.Second, 5*time.Millisecond, func() bool { return n0.Cluster().LocalNode().Endpoints["c08-goaway"] == 1 })
		// the endpoint has served requests before (whatever the transport keeps
		// from them must not stand in for the upstream that is selected now)
		for i := 0; i < 3; i++ {
			if s, w := check("request before the go-away", BuildRequest("GET", "/", "c08-goaway.piko.test", nil, nil, false), n0.ProxyAddr(), 200, 0, long); s != "" {
				return s, w
			}
		}
		time.Sleep(100 * time.Millisecond)
		ga.GoAway()
		time.Sleep(50 * time.Millisecond)
		s, w := check("upstream announced go-away", BuildRequest("GET", "/", "c08-goaway.piko.test", nil, nil, false), n0.ProxyAddr(), 502, 0, long)
		ga.Shutdown()
		if s != "" {
			return s, w
		}
	}
	return "", ""
}

// asymTimeouts: forwarded requests to a hanging / late upstream through an entry
// node whose timeout (rg.timeout) is much shorter than the owner node's.
func (rg *c08rig) asymTimeouts(sh *core.Shard) (sig, what string) {
	tmo := rg.timeout
	addr := rg.nodes[1].ProxyAddr()
	for _, cse := range []struct {
		name string
		sc   *c08script
	}{
		{"upstream never answers", &c08script{Behavior: "hang"}},
		{"upstream answers after the entry node's timeout", &c08script{Behavior: "delay", DelayMs: int(tmo/time.Millisecond) * 8, Status: 200}},
	} {
		for rep := 0; rep < 2; rep++ {
			id := fmt.Sprintf("asym-%d-%d", rep, len(cse.name))
			rg.up.script(id, cse.sc)
			raw := BuildRequest("GET", "/fault", "c08.piko.test", [][2]string{{"X-Case", id}}, nil, false)
			t0 := time.Now()
			resp, err := RawRequest(addr, raw, "GET", 30*time.Second)
			el := time.Since(t0)
			sh.Count("asymmetric_timeout_cases", 1)
			name := fmt.Sprintf("%s, forwarded by a node with timeout %s to a node with timeout 60s", cse.name, tmo)
			if err != nil {
				return "fault-no-response", fmt.Sprintf("fault case %q: %v after %s (expected status 504)", name, err, el)
			}
			if resp.Status != 504 {
				return "fault-wrong-status", fmt.Sprintf("fault case %q: got %d after %s, expected 504 (body %q)", name, resp.Status, el, clipBytes(resp.Body))
			}
			if el < tmo-20*time.Millisecond {
				return "fault-too-early", fmt.Sprintf("fault case %q: 504 after %s, earlier than the configured timeout", name, el)
			}
			if el > tmo+5*time.Second {
				return "fault-too-late", fmt.Sprintf("fault case %q: 504 only after %s: the entry node did not apply its own timeout", name, el)
			}
		}
	}
	return "", ""
}

// agentFaults: the agent's HTTP reverse proxy (agent/reverseproxy, what `piko agent http`
// runs) is itself a gateway in front of the local service: with the server nodes'
// timeouts far away (rg.timeout, 60 s) and the agent's at tmo, the agent must map its
// own failures the same way - 502 unreachable/closed, 504 at its own timeout, upgrades
// exempt - whether the request entered at the agent's node or was forwarded to it.
func (rg *c08rig) agentFaults(tmo time.Duration, sh *core.Shard) (sig, what string) {
	n0 := rg.nodes[0]
	if _, err := startAgentHTTP(n0, "c08b", rg.origin.ln.Addr().String(), tmo); err != nil {
		return "", "inconclusive: " + err.Error()
	}
	dead, _ := net.Listen("tcp", "127.0.0.1:0")
	deadAddr := dead.Addr().String()
	dead.Close()
	if _, err := startAgentHTTP(n0, "c08dead", deadAddr, tmo); err != nil {
		return "", "inconclusive: " + err.Error()
	}
	if !core.WaitUntil(20*time.Second, 5*time.Millisecond, func() bool {
		e := n0.Cluster().LocalNode().Endpoints
		return e["c08b"] == 1 && e["c08dead"] == 1
	}) {
		return "", "inconclusive: agent listeners did not register"
	}
	if ok, why := WaitSettled(rg.nodes, 20*time.Second); !ok {
		return "", "inconclusive: not settled: " + why
	}
	long := 20 * time.Second
	check := func(name string, raw []byte, addr string, want int, minT, maxT time.Duration) (string, string) {
		for try := 0; ; try++ {
			t0 := time.Now()
			resp, err := RawRequest(addr, raw, "GET", 30*time.Second)
			el := time.Since(t0)
			sh.Count("agent_fault_cases", 1)
			if err != nil {
				if el >= 29*time.Second {
					return "hang", fmt.Sprintf("agent fault case %q: no response within 30 s (%v)", name, err)
				}
				return "fault-no-response", fmt.Sprintf("agent fault case %q: %v after %s (expected status %d)", name, err, el, want)
			}
			if resp.Status == 502 && want != 502 && try < 3 && !bytes.Contains(resp.Body, []byte("upstream unreachable")) {
				// answered by a server node (no available upstreams: the other node was
				// suspected under load), not by the agent: re-settle and repeat
				WaitSettled(rg.nodes, 30*time.Second)
				continue
			}
			if want == 200 && resp.Status == 504 && el >= tmo && try < 3 {
				sh.Count("gateway_timeouts_under_load", 1)
				continue // the agent's timeout legitimately expired on a starved machine
			}
			if resp.Status != want {
				return "fault-wrong-status", fmt.Sprintf("agent fault case %q: got %d after %s, expected %d (body %q)", name, resp.Status, el, want, clipBytes(resp.Body))
			}
			if el < minT {
				return "fault-too-early", fmt.Sprintf("agent fault case %q: %d after %s, earlier than the agent's timeout %s", name, resp.Status, el, tmo)
			}
			if el > maxT {
				return "fault-too-late", fmt.Sprintf("agent fault case %q: %d only after %s (agent timeout %s)", name, resp.Status, el, tmo)
			}
			return "", ""
		}
	}
	for _, via := range []string{"local", "forwarded"} {
		addr := rg.entry(via).ProxyAddr()
		mk := func(id string, sc *c08script) []byte {
			rg.origin.script(id, sc)
			return BuildRequest("GET", "/fault", "c08b.piko.test", [][2]string{{"X-Case", id}}, nil, false)
		}
		id := func(s string) string { return "ag-" + s + "-" + via }
		if s, w := check("service never answers via "+via, mk(id("hang"), &c08script{Behavior: "hang"}), addr, 504, tmo-20*time.Millisecond, tmo+5*time.Second); s != "" {
			return s, w
		}
		if s, w := check("service answers after the agent's timeout via "+via, mk(id("late"), &c08script{Behavior: "delay", DelayMs: int(tmo/time.Millisecond) * 3, Status: 200, Headers: [][2]string{{"Content-Type", "text/plain"}}}), addr, 504, tmo-20*time.Millisecond, tmo+5*time.Second); s != "" {
			return s, w
		}
		if s, w := check("service answers inside the agent's timeout via "+via, mk(id("slow-ok"), &c08script{Behavior: "delay", DelayMs: int(tmo/time.Millisecond) / 4, Status: 200, Headers: [][2]string{{"Content-Type", "text/plain"}}}), addr, 200, 0, long); s != "" {
			return s, w
		}
		if s, w := check("service closes at once via "+via, mk(id("close-now"), &c08script{Behavior: "close-now"}), addr, 502, 0, long); s != "" {
			return s, w
		}
		if s, w := check("service closes mid-headers via "+via, mk(id("mid"), &c08script{Behavior: "close-mid-headers"}), addr, 502, 0, long); s != "" {
			return s, w
		}
		if s, w := check("service port closed via "+via, BuildRequest("GET", "/", "c08dead.piko.test", nil, nil, false), addr, 502, 0, long); s != "" {
			return s, w
		}
		for _, k := range []string{"hang", "late", "slow-ok", "mid"} {
			rg.origin.take(id(k))
		}
		for ti, tok := range []string{"websocket", "WebSocket", "websocket"} {
			connHdr := "Upgrade"
			if ti == 2 {
				connHdr = "keep-alive, Upgrade"
			}
			cid := id(fmt.Sprintf("upg-%d", ti))
			rg.origin.script(cid, &c08script{Behavior: "upgrade"})
			sh.Count("agent_fault_cases", 1)
			c, err := net.DialTimeout("tcp", addr, 5*time.Second)
			if err != nil {
				return "fault-no-response", "dial: " + err.Error()
			}
			fmt.Fprintf(c, "GET /ws HTTP/1.1\r\nHost: c08b.piko.test\r\nX-Case: %s\r\nUpgrade: %s\r\nConnection: %s\r\nSec-WebSocket-Version: 13\r\nSec-WebSocket-Key: dGhlIHNhbXBsZSBub25jZQ==\r\n\r\n", cid, tok, connHdr)
			_ = c.SetDeadline(time.Now().Add(30 * time.Second))
			br := bufio.NewReader(c)
			resp, err := http.ReadResponse(br, &http.Request{Method: "GET"})
			if err != nil || resp.StatusCode != 101 {
				c.Close()
				st := 0
				if resp != nil {
					st = resp.StatusCode
				}
				return "upgrade-failed", fmt.Sprintf("through the agent, Upgrade: %s (Connection: %s) via %s: expected 101 from the service, got status %d err %v", tok, connHdr, via, st, err)
			}
			time.Sleep(4 * tmo)
			msg := "still-open\n"
			_, werr := c.Write([]byte(msg))
			line, rerr := br.ReadString('\n')
			c.Close()
			rg.origin.take(cid)
			if werr != nil || rerr != nil || line != msg {
				return "timeout-applied-to-upgrade", fmt.Sprintf("through the agent, Upgrade: %s (Connection: %s) via %s: the upgraded connection did not survive %s idle (agent timeout %s): write err %v, read %q err %v", tok, connHdr, via, 4*tmo, tmo, werr, line, rerr)
			}
		}
	}
	return "", ""
}

func runC08(sh *core.Shard, a props.Args) {
	if a.Shard%4 == 0 {
		// the failure matrix runs on its own cluster with a short proxy timeout
		fmt.Printf("CASE C08 fault matrix\n")
		frg, err := newC08Rig(400 * time.Millisecond)
		if err != nil {
			sh.Inconcl("C08 fault rig: %v", err)
			return
		}
		sig, what := frg.faultMatrix(sh)
		StopAll(frg.nodes)
		sh.Eval()
		if sig != "" {
			sh.Violate(sig, what, map[string]any{"kind": "fault-matrix"})
			return
		}
		sh.Exhaustive["fault_matrix"] = true
		sh.Nontrivial(core.Hash("fault-matrix"))
	}
	if a.Shard%4 == 2 {
		// per-node timeouts differ (a legal configuration): the entry node must
		// honour its own 400 ms although the node holding the upstream allows 60 s
		fmt.Printf("CASE C08 asymmetric timeouts\n")
		arg, err := newC08RigAsym(60*time.Second, 400*time.Millisecond)
		if err != nil {
			sh.Inconcl("C08 asymmetric rig: %v", err)
			return
		}
		sig, what := arg.asymTimeouts(sh)
		StopAll(arg.nodes)
		sh.Eval()
		if sig != "" {
			sh.Violate(sig, what, map[string]any{"kind": "asymmetric-timeouts"})
			return
		}
		sh.Exhaustive["asymmetric_timeouts"] = true
	}
	if a.Shard%4 == 1 {
		fmt.Printf("CASE C08 agent fault matrix\n")
		grg, err := newC08Rig(60 * time.Second)
		if err != nil {
			sh.Inconcl("C08 agent fault rig: %v", err)
			return
		}
		sig, what := grg.agentFaults(400*time.Millisecond, sh)
		StopAll(grg.nodes)
		sh.Eval()
		if sig == "" && strings.HasPrefix(what, "inconclusive") {
			sh.Inconcl("C08 agent fault rig: %s", what)
			return
		}
		if sig != "" {
			sh.Violate(sig, what, map[string]any{"kind": "agent-fault-matrix"})
			return
		}
		sh.Exhaustive["agent_fault_matrix"] = true
	}
	// transparency runs with a proxy timeout that a loaded machine does not hit
	rg, err := newC08Rig(5 * time.Minute)
	if err != nil {
		sh.Inconcl("C08 rig: %v", err)
		return
	}
	defer StopAll(rg.nodes)
	total := a.Pick(1600, 20000) // thorough: about 35 min on 8 race-built shards
	maxBody := a.Pick(300000, 2<<20)
	if v, err := strconv.Atoi(os.Getenv("VERIF_C08_MAXBODY")); err == nil && v > 0 {
		maxBody = v // development aid: exercise the thorough tier's body sizes in a quick run
	}
	keys := map[string]bool{}
	for i := 0; i < total; i++ {
		if !a.Mine(i) {
			continue
		}
		r := rand.New(rand.NewSource(a.CaseSeed(i)))
		c := c08case{ID: fmt.Sprintf("c%d", i), Via: []string{"local", "forwarded", "local", "forwarded", "agent", "agent-forwarded"}[r.Intn(6)],
			Method: c08Methods[r.Intn(len(c08Methods))], Target: c08Target(r), Headers: c08Headers(r)}
		ep := "c08"
		if strings.HasPrefix(c.Via, "agent") {
			ep = "c08a"
		}
		if r.Intn(3) == 0 {
			c.Host = ep + ".piko.test:8000"
		} else {
			c.Host = ep + ".piko.test"
		}
		if r.Intn(5) == 0 {
			c.Host = "other.example.org"
			c.Headers = append(c.Headers, [2]string{"x-piko-endpoint", ep})
		}
		var body []byte
		if c.Method != "GET" && c.Method != "HEAD" || r.Intn(10) == 0 {
			switch r.Intn(4) {
			case 0:
				c.BodyLen = r.Intn(64)
			case 1, 2:
				c.BodyLen = r.Intn(20000)
			default:
				c.BodyLen = r.Intn(maxBody)
			}
			body = make([]byte, c.BodyLen)
			r.Read(body)
			c.Chunked = r.Intn(3) == 0
			if c.BodyLen == 0 && !c.Chunked {
				body = []byte{}
			}
		}
		c.Script = c08Script(r, maxBody)
		if i%200 < 16 {
			fmt.Printf("CASE C08 %s %s %s %s headers=%d body=%d chunked=%v -> %d (%d bytes)\n", c.ID, c.Via, c.Method, c.Target, len(c.Headers), c.BodyLen, c.Chunked, c.Script.Status, c.Script.BodyLen)
		}
		sig, what, retry := rg.transparency(c, body, sh)
		for try := 0; retry && try < 3; try++ {
			sh.Count("retries_after_unsettled_routing", 1)
			if ok, why := WaitSettled(rg.nodes, 30*time.Second); !ok {
				sh.Inconcl("routing did not settle again: %s", why)
				break
			}
			c.ID = fmt.Sprintf("c%d-r%d", i, try)
			sig, what, retry = rg.transparency(c, body, sh)
		}
		if retry {
			sig, what = "not-delivered", fmt.Sprintf("request %s keeps being answered by the gateway although routing is settled and the upstream is connected", c.ID)
		}
		sh.Eval()
		sh.Count("requests", 1)
		sh.Count("requests_"+c.Via, 1)
		if len(keys) < 3 {
			sh.Sample(c)
		}
		if sig != "" {
			sh.Violate(sig, what+fmt.Sprintf("\n  case: %s %s %s Host=%s via=%s", c.ID, c.Method, c.Target, c.Host, c.Via), c)
			return
		}
		k := fmt.Sprint(c.Method, c.Via, len(c.Headers), c.BodyLen, c.Chunked, c.Script.Status, c.Script.BodyLen, c.Script.Chunked)
		keys[k] = true
		sh.Nontrivial(core.Hash(k, c.Target))
	}
	_ = sort.Strings
}

func init() {
	props.Register(&props.Prop{
		ID: "C08", Level: "exploration", Race: true, Parallel: 8,
		// (not BoundedTime: "never a hang" is decided by the per-request watchdogs of
		// the failure matrix; the shard watchdog only bounds the size of the run, and
		// its firing is inconclusive)
		Timeout: func(tier string) time.Duration {
			if tier == "thorough" {
				return 120 * time.Minute
			}
			return 20 * time.Minute
		},
		Rule: "a 2-node real cluster (proxy timeout 400 ms) with a raw recording responder on a piko listener; a raw-socket HTTP/1.1 client sends seeded requests through the local node and through the other node (forwarded): 9 methods incl. HEAD/OPTIONS/PATCH and an extension method, targets with %2F %20 %25 %3F UTF-8 // .. ;params and odd queries, 0-30 headers with duplicates, mixed case, empty and 3 KB values, Cookie lists, optional User-Agent / Accept-Encoding / X-Forwarded-For, Host label or x-piko-endpoint addressing, bodies 0 B-300 KB (thorough 2 MiB) fixed-length or chunked; the upstream answers from a seeded script (22 statuses, duplicate headers, Set-Cookie lists, empty values, identity/chunked/empty bodies, gzip when accepted). Oracle: the upstream saw the same method, raw request target, Host, body and every end-to-end header (per name, values in order) and nothing else except X-Forwarded-For (appended), X-Piko-Forward, Accept-Encoding: gzip when the client sent none, and framing headers; the client received the upstream's status, end-to-end headers (nothing fabricated except Date and framing) and body (transparently gunzipped only when the client had not asked for gzip). Failure matrix, enumerated completely on both paths: no endpoint derivable (5 Host shapes) => 400; nobody serves it, upstream closes at once / mid-headers, remote proxy port closed, upstream announced go-away after having served three requests => 502; never answers / answers after the timeout => 504 no earlier than the timeout and no later than timeout+5 s; slower but inside the timeout => 200; Upgrade: websocket / WebSocket / WEBSOCKET idle for 4x the timeout stays open. Asymmetric rig: the entry node (timeout 400 ms) forwards to a node with timeout 60 s whose upstream hangs or answers after 3.2 s => 504 from the entry node within its own timeout+5 s. Fault-matrix requests have a 20-30 s watchdog whose expiry is a violation (the property says 'never a hang'); transparency requests run on a rig whose timeouts are 5 min, so that slowness of a starved machine is not mistaken for a gateway failure. Distinct = hash of (method, path, via, header count, sizes, framing, status).",
		Assumptions: []string{
			"reason phrases, header-name case and Date/Content-Length/Transfer-Encoding framing are not part of the comparison (hop-by-hop or case-insensitive by the HTTP spec)",
			"every scripted response carries a Content-Type, so net/http's content sniffing (which would add one) is not exercised",
		},
		RequireCounters: []string{"requests_local", "requests_forwarded", "requests_agent", "requests_agent-forwarded", "agent_fault_cases", "fault_cases", "asymmetric_timeout_cases", "gzip_transparently_decoded"},
		Shards:          func(string) int { return 16 },
		Run:             runC08,
	})
}
