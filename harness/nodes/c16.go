package nodes

import (
	"bufio"
	"context"
	"fmt"
	"io"
	"math/rand"
	"net"
	"net/http"
	"strconv"
	"strings"
	"sync"
	"sync/atomic"
	"time"

	"github.com/andydunstall/yamux"

	"github.com/andydunstall/piko/pkg/auth"
	"github.com/andydunstall/piko/pkg/gossip"
	pikowebsocket "github.com/andydunstall/piko/pkg/websocket"
	"github.com/andydunstall/piko/server/cluster"
	"github.com/andydunstall/piko/server/config"
	"github.com/andydunstall/piko/server/upstream"

	"verif/harness/core"
	"verif/harness/props"
)

// ---- C16: upstreams are registered exactly while connected; expiry ends connections --------

// interposer is a TCP proxy between listeners and a node's upstream port whose
// connections can be cut (FIN or RST).
type interposer struct {
	ln     net.Listener
	target string
	mu     sync.Mutex
	pairs  [][2]*net.TCPConn
	closed bool
}

func newInterposer(target string) (*interposer, error) {
	ln, err := net.Listen("tcp", "127.0.0.1:0")
	if err != nil {
		return nil, err
	}
	ip := &interposer{ln: ln, target: target}
	go func() {
		for {
			c, err := ln.Accept()
			if err != nil {
				return
			}
			u, err := net.Dial("tcp", ip.target)
			if err != nil {
				c.Close()
				continue
			}
			a, b := c.(*net.TCPConn), u.(*net.TCPConn)
			ip.mu.Lock()
			ip.pairs = append(ip.pairs, [2]*net.TCPConn{a, b})
			ip.mu.Unlock()
			go func() { _, _ = io.Copy(a, b); a.Close(); b.Close() }()
			go func() { _, _ = io.Copy(b, a); a.Close(); b.Close() }()
		}
	}()
	return ip, nil
}

func (ip *interposer) addr() string { return ip.ln.Addr().String() }

// cutAll cuts every live connection pair.
func (ip *interposer) cutAll(rst bool) int {
	ip.mu.Lock()
	pairs := ip.pairs
	ip.pairs = nil
	ip.mu.Unlock()
	for _, p := range pairs {
		for _, c := range p {
			if rst {
				_ = c.SetLinger(0)
			}
			c.Close()
		}
	}
	return len(pairs)
}

func (ip *interposer) close() { ip.ln.Close(); ip.cutAll(false) }

// rawClient is an upstream connection without reconnect logic: WebSocket +
// yamux client that answers every stream with an empty 200.
type rawClient struct {
	ep    string
	sess  *yamux.Session
	ended atomic.Bool
	endAt atomic.Int64 // unix nanos
}

func dialRaw(n *Node, ep, token string) (*rawClient, error) {
	return dialRawTenant(n, ep, token, "")
}

func dialRawTenant(n *Node, ep, token, tenant string) (*rawClient, error) {
	ctx, cancel := context.WithTimeout(context.Background(), 10*time.Second)
	defer cancel()
	var opts []pikowebsocket.DialOption
	if token != "" {
		opts = append(opts, pikowebsocket.WithToken(token))
	}
	if tenant != "" {
		opts = append(opts, pikowebsocket.WithTenantID(tenant))
	}
	conn, err := pikowebsocket.Dial(ctx, "ws://"+n.UpstreamAddr()+"/piko/v1/upstream/"+ep, opts...)
	if err != nil {
		return nil, err
	}
	mc := yamux.DefaultConfig()
	mc.LogOutput = io.Discard
	sess, err := yamux.Client(conn, mc)
	if err != nil {
		return nil, err
	}
	rc := &rawClient{ep: ep, sess: sess}
	go func() {
		for {
			st, err := sess.Accept()
			if err != nil {
				rc.endAt.Store(time.Now().UnixNano())
				rc.ended.Store(true)
				return
			}
			go func() {
				defer st.Close()
				br := bufio.NewReader(st)
				if _, err := http.ReadRequest(br); err != nil {
					return
				}
				_, _ = st.Write([]byte("HTTP/1.1 200 OK\r\nContent-Length: 0\r\nConnection: close\r\n\r\n"))
			}()
		}
	}()
	return rc, nil
}

type c16conn struct {
	ep      string
	lst     *HTTPUpstream // reconnecting client listener (direct or through the interposer)
	via     bool          // through the interposer
	raw     *rawClient
	goaway  bool
	closed  bool
}

func (c *c16conn) open() bool {
	if c.closed {
		return false
	}
	if c.raw != nil {
		return !c.raw.ended.Load()
	}
	return true
}

type c16rig struct {
	n     *Node
	ip    *interposer
	conns []*c16conn
	seq   int
}

func (rg *c16rig) views() (mgr, cl, gos map[string]int, sessions int) {
	parts := rg.n.Srv.VerifParts()
	if m, ok := parts.Upstream.VerifManager().(*upstream.LoadBalancedManager); ok {
		mgr = m.Endpoints()
	}
	cl = rg.n.Cluster().LocalNode().Endpoints
	gos = map[string]int{}
	for _, e := range gossip.VWrap(parts.Gossip.VInner()).LocalNode().Entries {
		if e.Internal || e.Deleted || !strings.HasPrefix(e.Key, "endpoint:") {
			continue
		}
		v, _ := strconv.Atoi(e.Value)
		gos[strings.TrimPrefix(e.Key, "endpoint:")] = v
	}
	sessions = parts.Upstream.VerifOpenSessions()
	return
}

// expected returns, per endpoint, the range [lo, hi] of registered upstreams:
// open connections that announced go-away may or may not still be counted.
func (rg *c16rig) expected() (lo, hi map[string]int, sessLo, sessHi int) {
	lo, hi = map[string]int{}, map[string]int{}
	for _, c := range rg.conns {
		if !c.open() {
			continue
		}
		hi[c.ep]++
		sessHi++
		if !c.goaway {
			// a listener that is closed (go-away) while it is reconnecting gives
			// up the new session altogether, so a go-away'd connection may
			// legitimately be gone already
			lo[c.ep]++
			sessLo++
		}
	}
	return
}

func within(v, lo, hi map[string]int) bool {
	for k, x := range v {
		if x < lo[k] || x > hi[k] || x == 0 {
			return false
		}
	}
	for k, l := range lo {
		if v[k] < l {
			return false
		}
	}
	return true
}

// quiesce waits until the four views agree with each other and with what the
// harness holds open; returns a description on failure.
func (rg *c16rig) quiesce(step string) string {
	var mgr, cl, gos map[string]int
	var sess int
	var lo, hi map[string]int
	var sl, shi int
	ok := core.WaitUntil(20*time.Second, 2*time.Millisecond, func() bool {
		lo, hi, sl, shi = rg.expected()
		mgr, cl, gos, sess = rg.views()
		return within(mgr, lo, hi) && sameEps(mgr, cl) && sameEps(cl, gos) && sess >= sl && sess <= shi
	})
	if ok {
		return ""
	}
	return fmt.Sprintf("after %q the harness holds open %v..%v upstream connections (%d..%d sessions) but 20 s later the node reports: registry %v, routing table %v, published gossip %v, open sessions %d", step, lo, hi, sl, shi, mgr, cl, gos, sess)
}

func (rg *c16rig) connect(r *rand.Rand, eps []string, token string) error {
	ep := eps[r.Intn(len(eps))]
	rg.seq++
	c := &c16conn{ep: ep}
	var err error
	switch r.Intn(3) {
	case 0:
		c.raw, err = dialRaw(rg.n, ep, token)
	case 1:
		c.lst, err = ListenHTTP(rg.n, ep, fmt.Sprintf("l%d", rg.seq), ListenOpts{Token: token, CancelCtx: r.Intn(2) == 0})
	default:
		c.via = true
		c.lst, err = ListenHTTP(rg.n, ep, fmt.Sprintf("v%d", rg.seq), ListenOpts{Token: token, URL: "http://" + rg.ip.addr(), CancelCtx: r.Intn(2) == 0})
	}
	if err != nil {
		return err
	}
	rg.conns = append(rg.conns, c)
	return nil
}

func (rg *c16rig) request(ep string) {
	_, _ = Get(rg.n.ProxyAddr(), ep+".piko.test", "/c16", nil, 20*time.Second)
}

type c16fault struct {
	Kind string `json:"kind"`
	N    int    `json:"n,omitempty"`
}

var c16Faults = []string{"client-shutdown", "goaway-request-close", "goaway-with-sibling", "cut-fin", "cut-rst", "shed", "connect-more", "client-shutdown-all-of-endpoint"}

func runC16Scenario(r *rand.Rand, sh *core.Shard, nconns int, faults []string, finish string) (sig, what string, trail []string, inconclusive string) {
	n, err := StartNode(NodeOpts{GossipInterval: 50 * time.Millisecond, ProxyTimeout: 2 * time.Second})
	if err != nil {
		return "", "", nil, err.Error()
	}
	ip, err := newInterposer(n.UpstreamAddr())
	if err != nil {
		n.Stop()
		return "", "", nil, err.Error()
	}
	rg := &c16rig{n: n, ip: ip}
	stopped := false
	defer func() {
		for _, c := range rg.conns {
			if c.lst != nil {
				c.lst.Shutdown()
			} else if c.raw != nil {
				c.raw.sess.Close()
			}
		}
		ip.close()
		if !stopped {
			n.Stop()
		}
	}()
	eps := []string{"e1", "e2", "e10"}
	step := func(s string) { trail = append(trail, s) }
	for i := 0; i < nconns; i++ {
		if err := rg.connect(r, eps, ""); err != nil {
			return "", "", trail, "connect: " + err.Error()
		}
	}
	step(fmt.Sprintf("connect %d upstreams", nconns))
	if d := rg.quiesce("connect"); d != "" {
		return "views-disagree", d, trail, ""
	}
	// requests in flight throughout
	stopReq := make(chan struct{})
	var wg sync.WaitGroup
	var reqs atomic.Int64
	for w := 0; w < 3; w++ {
		wg.Add(1)
		seed := r.Int63()
		go func() {
			defer wg.Done()
			wr := rand.New(rand.NewSource(seed))
			for {
				select {
				case <-stopReq:
					return
				default:
				}
				rg.request(eps[wr.Intn(len(eps))])
				reqs.Add(1)
			}
		}()
	}
	defer func() { sh.Count("requests_in_flight_during_faults", reqs.Load()) }()
	pick := func(pred func(*c16conn) bool) []*c16conn {
		var out []*c16conn
		for _, c := range rg.conns {
			if c.open() && pred(c) {
				out = append(out, c)
			}
		}
		return out
	}
	endConn := func(c *c16conn) {
		if c.lst != nil {
			c.lst.Shutdown()
		} else {
			c.raw.sess.Close()
		}
		c.closed = true
	}
	for _, f := range faults {
		sh.Count("fault_"+f, 1)
		switch f {
		case "client-shutdown":
			cs := pick(func(*c16conn) bool { return true })
			k := 0
			for _, c := range cs {
				if r.Intn(3) == 0 {
					endConn(c)
					k++
				}
			}
			step(fmt.Sprintf("client closes %d connections", k))
		case "client-shutdown-all-of-endpoint":
			ep := eps[r.Intn(len(eps))]
			for _, c := range pick(func(c *c16conn) bool { return c.ep == ep }) {
				endConn(c)
			}
			step("client closes every connection of " + ep)
		case "goaway-request-close":
			cs := pick(func(c *c16conn) bool { return c.lst != nil && !c.goaway })
			if len(cs) == 0 {
				continue
			}
			c := cs[r.Intn(len(cs))]
			c.lst.GoAway()
			c.goaway = true
			step("go-away on an upstream of " + c.ep)
			for k := 0; k < 6; k++ {
				rg.request(c.ep)
			}
			if d := rg.quiesce("go-away then requests"); d != "" {
				close(stopReq)
				wg.Wait()
				return "views-disagree", d, trail, ""
			}
			endConn(c)
			step("the go-away'd upstream disconnects")
		case "goaway-with-sibling":
			// two upstreams of one endpoint: one announces go-away, a request drops it, it disconnects
			ep := eps[r.Intn(len(eps))]
			cs := pick(func(c *c16conn) bool { return c.ep == ep && c.lst != nil && !c.goaway })
			if len(cs) < 2 {
				for len(cs) < 2 {
					rg.seq++
					l, err := ListenHTTP(rg.n, ep, fmt.Sprintf("s%d", rg.seq), ListenOpts{})
					if err != nil {
						break
					}
					c := &c16conn{ep: ep, lst: l}
					rg.conns = append(rg.conns, c)
					cs = append(cs, c)
				}
				if d := rg.quiesce("connect sibling"); d != "" {
					close(stopReq)
					wg.Wait()
					return "views-disagree", d, trail, ""
				}
			}
			a := cs[0]
			a.lst.GoAway()
			a.goaway = true
			for k := 0; k < 2*len(cs)+2; k++ {
				rg.request(ep)
			}
			endConn(a)
			step("go-away, requests and disconnect of one of several upstreams of " + ep)
		case "cut-fin", "cut-rst":
			k := ip.cutAll(f == "cut-rst")
			step(fmt.Sprintf("%s of %d TCP connections (listeners reconnect)", f, k))
			// wait for the listeners behind the interposer to have reconnected
			want := len(pick(func(c *c16conn) bool { return c.via && !c.goaway }))
			core.WaitUntil(20*time.Second, 2*time.Millisecond, func() bool {
				ip.mu.Lock()
				defer ip.mu.Unlock()
				return len(ip.pairs) >= want
			})
		case "shed":
			parts := rg.n.Srv.VerifParts()
			rg.n.Cluster().AddNode(&cluster.Node{ID: "idle-peer", Status: cluster.NodeStatusActive, ProxyAddr: "127.0.0.1:1", AdminAddr: "127.0.0.1:1"})
			parts.Upstream.VerifSetRebalance(0.1, 0.5, 1)
			parts.Upstream.Rebalance()
			rg.n.Cluster().RemoveNode("idle-peer")
			step("server sheds connections (raw clients end, listeners reconnect)")
			time.Sleep(50 * time.Millisecond)
		case "connect-more":
			for k := 0; k < 1+r.Intn(4); k++ {
				if err := rg.connect(r, eps, ""); err != nil {
					close(stopReq)
					wg.Wait()
					return "", "", trail, "connect: " + err.Error()
				}
			}
			step("more upstreams connect")
		}
		if d := rg.quiesce(f); d != "" {
			close(stopReq)
			wg.Wait()
			return "views-disagree", d, trail, ""
		}
		sh.Count("quiescent_points_checked", 1)
	}
	close(stopReq)
	wg.Wait()
	// the end: everything goes away, one way or another
	switch finish {
	case "clients-leave":
		for _, c := range rg.conns {
			if c.open() {
				endConn(c)
			}
		}
		step("every remaining client disconnects")
	case "server-shutdown":
		// listeners would reconnect for ever; close them first, leave the raw clients to the server
		for _, c := range rg.conns {
			if c.open() && c.lst != nil {
				endConn(c)
			}
		}
		if d := rg.quiesce("listeners leave before shutdown"); d != "" {
			return "views-disagree", d, trail, ""
		}
		stopped = true
		n.Stop()
		step("server shuts down with raw clients still connected")
		ok := core.WaitUntil(20*time.Second, 5*time.Millisecond, func() bool {
			for _, c := range rg.conns {
				if c.raw != nil && !c.closed && !c.raw.ended.Load() {
					return false
				}
			}
			return true
		})
		if !ok {
			return "not-closed-on-shutdown", "the server shut down but some upstream connections were left open", trail, ""
		}
	}
	ok := core.WaitUntil(20*time.Second, 5*time.Millisecond, func() bool {
		mgr, cl, gos, sess := rg.views()
		return len(mgr) == 0 && len(cl) == 0 && len(gos) == 0 && sess == 0
	})
	if !ok {
		mgr, cl, gos, sess := rg.views()
		return "not-empty-at-the-end", fmt.Sprintf("every upstream is gone (%s) but the node still reports: registry %v, routing table %v, published gossip %v, open sessions %d", finish, mgr, cl, gos, sess), trail, ""
	}
	sh.Count("scenarios_ending_empty", 1)
	return "", "", trail, ""
}

// ---- token expiry ---------------------------------------------------------------------------

func runC16Expiry(sh *core.Shard, disable bool, k int, tenant string) (sig, what string, inconclusive string) {
	key := []byte("c16-expiry-secret-0123456789abcdef")
	// 2 s grace period: the shutdown at the end runs with a client that has
	// connected to the upstream port but not sent its request yet, so the
	// graceful HTTP shutdown of that port runs out of time
	o := NodeOpts{UpstreamAuth: auth.Config{HMACSecretKey: string(key), DisableDisconnectOnExpiry: disable}, GossipInterval: 50 * time.Millisecond, GracePeriod: 2 * time.Second}
	if tenant != "" {
		// the connections authenticate under a tenant with its own key
		o.UpstreamAuth = auth.Config{HMACSecretKey: "c16-default-key-unused-0123456789ab"}
		o.Tenants = []config.TenantConfig{{ID: tenant, Auth: auth.Config{HMACSecretKey: string(key), DisableDisconnectOnExpiry: disable}}}
	}
	n, err := StartNode(o)
	if err != nil {
		return "", "", err.Error()
	}
	defer n.Stop()
	rg := &c16rig{n: n}
	type ec struct {
		rc  *rawClient
		exp time.Time // zero = no expiry
	}
	var cs []ec
	now := time.Now()
	for i := 0; i < k; i++ {
		var exp time.Time
		o := claimOpts{}
		switch i % 3 {
		case 0:
			exp = now.Truncate(time.Second).Add(time.Duration(3+i%2) * time.Second)
			o.Exp = time.Until(exp)
		case 1:
			exp = now.Truncate(time.Second).Add(5 * time.Second)
			o.Exp = time.Until(exp)
		}
		tok := sign("HS256", key, o)
		if !exp.IsZero() {
			// the exp claim is in whole seconds
			exp = time.Unix(time.Now().Add(o.Exp).Unix(), 0)
		}
		rc, err := dialRawTenant(n, fmt.Sprintf("x%d", i%2), tok, tenant)
		if err != nil {
			return "", "", "dial: " + err.Error()
		}
		cs = append(cs, ec{rc, exp})
		rg.conns = append(rg.conns, &c16conn{ep: rc.ep, raw: rc})
	}
	if d := rg.quiesce("connect with expiring tokens"); d != "" {
		return "views-disagree", d, ""
	}
	// observe for 11 seconds
	deadline := time.Now().Add(11 * time.Second)
	for time.Now().Before(deadline) {
		time.Sleep(20 * time.Millisecond)
	}
	for i, c := range cs {
		ended := c.rc.ended.Load()
		at := time.Unix(0, c.rc.endAt.Load())
		switch {
		case c.exp.IsZero() || disable:
			if ended {
				why := "its token has no expiry"
				if disable && !c.exp.IsZero() {
					why = "disconnect-on-expiry is disabled"
				}
				return "closed-early", fmt.Sprintf("upstream %d was closed by the server at %s although %s", i, at.Format("15:04:05.000"), why), ""
			}
			sh.Count("kept_open", 1)
		default:
			if !ended {
				return "not-closed-at-expiry", fmt.Sprintf("upstream %d authenticated with a token expiring at %s is still connected %s later", i, c.exp.Format("15:04:05"), time.Since(c.exp).Round(time.Millisecond)), ""
			}
			d := at.Sub(c.exp)
			if d < -1100*time.Millisecond {
				return "closed-before-expiry", fmt.Sprintf("upstream %d: token expires at %s, the server closed it at %s (%s early)", i, c.exp.Format("15:04:05"), at.Format("15:04:05.000"), -d), ""
			}
			if d > 5*time.Second {
				return "not-closed-at-expiry", fmt.Sprintf("upstream %d: token expired at %s, closed only at %s", i, c.exp.Format("15:04:05"), at.Format("15:04:05.000")), ""
			}
			sh.Count("closed_at_expiry", 1)
		}
	}
	if d := rg.quiesce("after expiry"); d != "" {
		return "views-disagree", d, ""
	}
	// server shutdown while upstreams authenticated with (far) expiring tokens are connected
	var late []*rawClient
	for i := 0; i < 6; i++ {
		o := claimOpts{}
		if i%3 != 2 {
			o.Exp = time.Hour
		}
		rc, err := dialRawTenant(n, fmt.Sprintf("y%d", i%2), sign("HS256", key, o), tenant)
		if err != nil {
			return "", "", "dial: " + err.Error()
		}
		late = append(late, rc)
		rg.conns = append(rg.conns, &c16conn{ep: rc.ep, raw: rc})
	}
	if d := rg.quiesce("connect before shutdown"); d != "" {
		return "views-disagree", d, ""
	}
	// a client in mid-connect: TCP connection to the upstream port established,
	// upgrade request not sent yet; the graceful shutdown cannot finish in the
	// grace period because of it, and upstream connections must be ended all the same
	if slow, err := net.DialTimeout("tcp", n.UpstreamAddr(), 5*time.Second); err == nil {
		defer slow.Close()
		_, _ = slow.Write([]byte("GET /piko/v1/upstream/slow HTTP/1.1\r\nHost: x\r\n"))
		time.Sleep(50 * time.Millisecond)
		sh.Count("shutdowns_with_a_client_in_mid_connect", 1)
	}
	n.Stop()
	ok := core.WaitUntil(15*time.Second, 5*time.Millisecond, func() bool {
		for _, c := range rg.conns {
			if c.raw != nil && !c.raw.ended.Load() {
				return false
			}
		}
		mgr, cl, gos, sess := rg.views()
		return len(mgr) == 0 && len(cl) == 0 && len(gos) == 0 && sess == 0
	})
	if !ok {
		open := 0
		for _, c := range rg.conns {
			if c.raw != nil && !c.raw.ended.Load() {
				open++
			}
		}
		mgr, cl, gos, sess := rg.views()
		return "not-closed-on-shutdown", fmt.Sprintf("the server shut down but %d upstream connections authenticated with tokens (expiring in an hour / never) are still open; registry %v, routing table %v, published gossip %v, open sessions %d", open, mgr, cl, gos, sess), ""
	}
	sh.Count("shutdown_with_token_upstreams", 1)
	return "", "", ""
}

func runC16(sh *core.Shard, a props.Args) {
	// the fault list is enumerated: every fault alone (x both endings), then seeded combinations
	type sc struct {
		faults []string
		finish string
		nconns int
	}
	var scs []sc
	for _, f := range c16Faults {
		for _, fin := range []string{"clients-leave", "server-shutdown"} {
			scs = append(scs, sc{[]string{f}, fin, 6})
		}
	}
	r0 := rand.New(rand.NewSource(a.Seed))
	for i := 0; i < a.Pick(32, 600); i++ {
		var fs []string
		for k := 0; k < 2+r0.Intn(6); k++ {
			fs = append(fs, c16Faults[r0.Intn(len(c16Faults))])
		}
		scs = append(scs, sc{fs, []string{"clients-leave", "server-shutdown"}[r0.Intn(2)], 1 + r0.Intn(24)})
	}
	single := true
	for i, s := range scs {
		if !a.Mine(i) {
			continue
		}
		r := rand.New(rand.NewSource(a.CaseSeed(i)))
		fmt.Printf("CASE C16 scenario=%d conns=%d faults=%v finish=%s\n", i, s.nconns, s.faults, s.finish)
		sig, what, trail, inc := runC16Scenario(r, sh, s.nconns, s.faults, s.finish)
		if inc != "" {
			fmt.Printf("RETRY C16 scenario %d after inconclusive: %s\n", i, inc)
			sh.Count("scenarios_retried_after_inconclusive", 1)
			sig, what, trail, inc = runC16Scenario(rand.New(rand.NewSource(a.CaseSeed(i)+1)), sh, s.nconns, s.faults, s.finish)
		}
		sh.Eval()
		if inc != "" {
			sh.Inconcl("scenario %d: %s", i, inc)
			if len(s.faults) == 1 {
				single = false
			}
			continue
		}
		if i < 2 {
			sh.Sample(map[string]any{"connections": s.nconns, "faults": s.faults, "finish": s.finish, "steps": trail})
		}
		if sig != "" {
			sh.Violate(sig, what+"\n  steps: "+strings.Join(trail, "; "), map[string]any{"scenario": i, "case_seed": a.CaseSeed(i), "connections": s.nconns, "faults": s.faults, "finish": s.finish, "steps": trail})
			return
		}
		sh.Nontrivial(core.Hash(s.faults, s.finish, s.nconns, len(trail)))
	}
	sh.Exhaustive["single_fault_list"] = single
	// token expiry: with and without disconnect-on-expiry
	type expCase struct {
		disable bool
		tenant  string
	}
	for j, ec := range []expCase{{false, ""}, {true, ""}, {false, "t1"}, {true, "t1"}} {
		disable := ec.disable
		if a.Shard != (3+j)%a.NShards {
			continue
		}
		fmt.Printf("CASE C16 expiry disable_disconnect_on_expiry=%v tenant=%q\n", disable, ec.tenant)
		sig, what, inc := runC16Expiry(sh, disable, 9, ec.tenant)
		sh.Eval()
		if inc != "" {
			sh.Inconcl("expiry: %s", inc)
			continue
		}
		if sig != "" {
			sh.Violate(sig, fmt.Sprintf("disable_disconnect_on_expiry=%v tenant=%q: %s", disable, ec.tenant, what), map[string]any{"kind": "expiry", "disable_disconnect_on_expiry": disable, "tenant": ec.tenant})
			return
		}
		sh.Nontrivial(core.Hash("expiry", disable, ec.tenant))
	}
}

func init() {
	props.Register(&props.Prop{
		ID: "C16", Level: "fault_enumeration", Race: true, Parallel: 8,
		Rule: "a fully assembled real node (race build) observed through four views: the manager's registry, the local routing-table entry, the locally published gossip entries and the open-session count. Upstream connections are a seeded mix of raw WebSocket+yamux clients (no reconnect), reconnecting client listeners, and listeners behind an interposed TCP proxy; 1-24 of them over shared and distinct endpoints, with three request goroutines running throughout. Fault list: client disconnect of a random subset; every connection of one endpoint; go-away then requests then disconnect; go-away with sibling upstreams (the double-removal trigger); TCP cut of every interposed connection by FIN and by RST (listeners reconnect); server-side shedding through Rebalance with an injected idle peer (raw clients end, listeners reconnect); more connects. Every fault is run alone with both endings (all clients leave / server shutdown with raw clients attached) and in seeded sequences of 2-7 faults. Oracle at every quiescent point (polled, 20 s watchdog => violation because the views never converged): the four views are equal and equal the connections the harness holds open (go-away'd ones may or may not still be counted); at the end all four are empty and, on shutdown, every raw client saw its session end. Token expiry: 9 raw clients with tokens expiring 3-5 s ahead or never, with disconnect-on-expiry enabled and disabled, authenticated with the default key and under a tenant with its own key; the server must close exactly the expiring ones within [T-1.1 s, T+5 s], and none when disabled or without exp (observed for 11 s); the node is then shut down with a 2 s grace period while a client is in mid-connect on the upstream port (TCP established, request incomplete), so the graceful HTTP shutdown times out: every upstream connection must be ended all the same. Distinct = hash of (fault sequence, ending, size).",
		Assumptions: []string{
			"expiry bounds: T is known to whole seconds (JWT), the window allows 1.1 s before and 5 s after; these are the only wall-clock verdicts",
			"rebalance parameters swapped through a verif-tagged setter",
		},
		RequireCounters: []string{"quiescent_points_checked", "scenarios_ending_empty", "closed_at_expiry", "kept_open", "shutdown_with_token_upstreams", "shutdowns_with_a_client_in_mid_connect", "fault_shed", "fault_cut-rst", "fault_goaway-with-sibling"},
		Shards:          func(string) int { return 16 },
		Run:             runC16,
	})
}


// RawUpstream is an exported handle on a raw (non-reconnecting) upstream connection.
type RawUpstream struct{ rc *rawClient }

// DialRawUpstream opens a raw upstream connection for endpoint ep on node n.
func DialRawUpstream(n *Node, ep string) (*RawUpstream, error) {
	rc, err := dialRaw(n, ep, "")
	if err != nil {
		return nil, err
	}
	return &RawUpstream{rc}, nil
}

func (r *RawUpstream) Ended() bool { return r.rc.ended.Load() }
func (r *RawUpstream) Close()      { r.rc.sess.Close() }
