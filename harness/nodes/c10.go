package nodes

import (
	"bufio"
	"context"
	"fmt"
	"net"
	"net/http"
	"net/url"
	"strings"
	"time"

	"github.com/gorilla/websocket"

	"github.com/andydunstall/piko/client"
	"github.com/andydunstall/piko/pkg/auth"
	pikowebsocket "github.com/andydunstall/piko/pkg/websocket"
	"github.com/andydunstall/piko/server/config"

	"verif/harness/core"
	"verif/harness/props"
)

// ---- C10: tokens are confined to their endpoints and tenants -------------------------------

var c10Endpoints = []string{"a", "a1", "A", "a-b", "b"}

type c10claims struct {
	Name string
	List []string // nil = no claim at all
}

var c10ClaimSets = []c10claims{
	{"no endpoints claim", nil},
	{"empty endpoints list", []string{}},
	{"[a]", []string{"a"}},
	{"[a b]", []string{"a", "b"}},
	{"[a1]", []string{"a1"}},
	{"[A]", []string{"A"}},
	{"[a-b]", []string{"a-b"}},
	{"[b]", []string{"b"}},
	{"[a.]", []string{"a."}},
	{"[a*]", []string{"a*"}},
	{"['']", []string{""}},
	{"[' ' '']", []string{" ", ""}},
}

func (c c10claims) permits(ep string) bool {
	if len(c.List) == 0 {
		return true
	}
	for _, e := range c.List {
		if e == ep {
			return true
		}
	}
	return false
}

type c10rig struct {
	nodes []*Node
	ups   map[string]*HTTPUpstream // endpoint -> stamping upstream (on node 0)
	key   []byte
}

func hsToken(key []byte, claims []string, exp time.Duration) string {
	return sign("HS256", key, claimOpts{Exp: exp, Endpoints: claims})
}

// HSToken signs an HS256 token for checks in other packages.
func HSToken(key []byte, endpoints []string, exp time.Duration) string {
	return hsToken(key, endpoints, exp)
}

func newC10Rig() (*c10rig, error) {
	key := []byte("c10-shared-secret-0123456789abcdef")
	ac := auth.Config{HMACSecretKey: string(key)}
	nodes, err := StartCluster(2, func(int) NodeOpts {
		return NodeOpts{ProxyAuth: ac, UpstreamAuth: ac, GossipInterval: 100 * time.Millisecond}
	})
	if err != nil {
		return nil, err
	}
	rg := &c10rig{nodes: nodes, ups: map[string]*HTTPUpstream{}, key: key}
	for _, ep := range c10Endpoints {
		u, err := ListenHTTP(nodes[0], ep, "up-"+ep, ListenOpts{Token: hsToken(key, []string{ep}, time.Hour)})
		if err != nil {
			return nil, fmt.Errorf("listen %s: %w", ep, err)
		}
		rg.ups[ep] = u
	}
	if !core.WaitUntil(20*time.Second, 5*time.Millisecond, func() bool {
		return len(nodes[0].Cluster().LocalNode().Endpoints) == len(c10Endpoints)
	}) {
		return nil, fmt.Errorf("upstreams did not register: %v", nodes[0].Cluster().LocalNode().Endpoints)
	}
	if ok, why := WaitSettled(nodes, 20*time.Second); !ok {
		return nil, fmt.Errorf("not settled: %s", why)
	}
	return rg, nil
}

func (rg *c10rig) seenTotal() int64 {
	var t int64
	for _, u := range rg.ups {
		t += u.Requests.Load()
	}
	return t
}

type c10case struct {
	Claims string `json:"claims"`
	Naming string `json:"naming"` // host | header | conflict | tcp
	Target string `json:"target_endpoint"`
	Other  string `json:"other_endpoint_in_host,omitempty"`
	Via    string `json:"via"`
	// Marked: the client itself sends "x-piko-forward: true", the marker nodes put
	// on requests they forward (it is client-controlled, so it must not buy anything)
	Marked bool `json:"client_sends_forward_marker,omitempty"`
	// UnknownTenant: the request carries x-piko-tenant-id although the proxy port
	// has no tenants: refused whatever the token says
	UnknownTenant bool `json:"unknown_tenant_header,omitempty"`
}

// proxyCase sends one request and returns (status, stamp).
func (rg *c10rig) proxyCase(c c10case, tok string) (int, string, error) {
	entry := rg.nodes[0]
	if c.Via == "forwarded" {
		entry = rg.nodes[1]
	}
	authH := [2]string{"Authorization", "Bearer " + tok}
	markH := [2]string{"X-Verif-Nop", "1"}
	if c.UnknownTenant {
		markH = [2]string{"x-piko-tenant-id", "nobody"}
	}
	if c.Marked {
		markH = [2]string{"x-piko-forward", "true"}
	}
	switch c.Naming {
	case "tcp":
		// the upstreams speak HTTP: tunnel one request through the TCP route
		u, _ := url.Parse("http://" + entry.ProxyAddr())
		d := &client.Dialer{URL: u, Token: tok}
		ctx, cancel := context.WithTimeout(context.Background(), 10*time.Second)
		conn, err := d.Dial(ctx, c.Target)
		cancel()
		if err != nil {
			for _, code := range []int{401, 502, 400, 404} {
				if strings.Contains(err.Error(), fmt.Sprint(code)) {
					return code, "", nil
				}
			}
			return 0, "", err
		}
		defer conn.Close()
		_ = conn.SetDeadline(time.Now().Add(10 * time.Second))
		if _, err := conn.Write([]byte("GET /c10-tunnel HTTP/1.1\r\nHost: tunnel\r\nConnection: close\r\n\r\n")); err != nil {
			return 0, "", err
		}
		resp, err := http.ReadResponse(bufio.NewReader(conn), &http.Request{Method: "GET"})
		if err != nil {
			return 0, "", err
		}
		return 101, resp.Header.Get("X-Stamp"), nil
	case "tcp-conflict":
		// the TCP route names the target in the path; the handshake also carries an
		// x-piko-endpoint header and a Host label that name ANOTHER endpoint. The
		// endpoint that is checked must be the one routed to: the path's.
		hd := http.Header{}
		hd.Set("Authorization", "Bearer "+tok)
		hd.Set("x-piko-endpoint", c.Other)
		hd.Set("Host", c.Other+".piko.test")
		hd.Set(markH[0], markH[1])
		d := websocket.Dialer{HandshakeTimeout: 10 * time.Second}
		ws, resp, err := d.Dial("ws://"+entry.ProxyAddr()+"/_piko/v1/tcp/"+c.Target, hd)
		if err != nil {
			if resp != nil {
				return resp.StatusCode, "", nil
			}
			return 0, "", err
		}
		conn := pikowebsocket.New(ws)
		defer conn.Close()
		_ = conn.SetDeadline(time.Now().Add(10 * time.Second))
		if _, err := conn.Write([]byte("GET /c10-tunnel HTTP/1.1\r\nHost: tunnel\r\nConnection: close\r\n\r\n")); err != nil {
			return 0, "", err
		}
		hresp, err := http.ReadResponse(bufio.NewReader(conn), &http.Request{Method: "GET"})
		if err != nil {
			return 0, "", err
		}
		return 101, hresp.Header.Get("X-Stamp"), nil
	case "host":
		resp, err := Get(entry.ProxyAddr(), c.Target+".piko.test", "/c10", [][2]string{authH, markH}, 10*time.Second)
		if err != nil {
			return 0, "", err
		}
		return resp.Status, resp.Header.Get("X-Stamp"), nil
	case "header":
		resp, err := Get(entry.ProxyAddr(), "127.0.0.1", "/c10", [][2]string{authH, {"x-piko-endpoint", c.Target}, markH}, 10*time.Second)
		if err != nil {
			return 0, "", err
		}
		return resp.Status, resp.Header.Get("X-Stamp"), nil
	default: // conflict: Host names c.Other, header names c.Target (the header wins)
		resp, err := Get(entry.ProxyAddr(), c.Other+".piko.test", "/c10", [][2]string{authH, {"X-Piko-Endpoint", c.Target}, markH}, 10*time.Second)
		if err != nil {
			return 0, "", err
		}
		return resp.Status, resp.Header.Get("X-Stamp"), nil
	}
}

func runC10Endpoints(sh *core.Shard, a props.Args) bool {
	rg, err := newC10Rig()
	if err != nil {
		sh.Inconcl("C10 rig: %v", err)
		return false
	}
	defer StopAll(rg.nodes)
	complete := true
	// ---- proxy port
	for _, cs := range c10ClaimSets {
		tok := hsToken(rg.key, cs.List, 24*time.Hour)
		for _, via := range []string{"local", "forwarded"} {
			for _, naming := range []string{"host", "header", "conflict", "tcp", "tcp-conflict"} {
				for _, target := range c10Endpoints {
					others := []string{""}
					if naming == "conflict" || naming == "tcp-conflict" {
						others = c10Endpoints
					}
					for _, other := range others {
						for _, variant := range []string{"", "forward-marker", "unknown-tenant"} {
							marked, unknownTenant := variant == "forward-marker", variant == "unknown-tenant"
							if (naming == "conflict" || naming == "tcp-conflict") && other == target {
								continue
							}
							if unknownTenant && (naming == "tcp" || naming == "conflict") {
								continue
							}
							if marked && (cs.permits(target) || naming == "tcp") {
								// a marked request is only served from local upstreams, so only the
								// refusals are decided here (the tunnel dialer cannot add headers)
								continue
							}
							c := c10case{cs.Name, naming, target, other, via, marked, unknownTenant}
							// Host labels are case-preserving here; piko routes by the exact string
							before := rg.seenTotal()
							status, stamp, err := rg.proxyCase(c, tok)
							sh.Eval()
							sh.Count("proxy_cases", 1)
							if err != nil {
								sh.Inconcl("%+v: %v", c, err)
								complete = false
								continue
							}
							desc := fmt.Sprintf("token %s, target %q named by %s (Host label %q) via %s", cs.Name, target, naming, other, via)
							if marked {
								desc += ", the client itself sending x-piko-forward: true"
								sh.Count("proxy_cases_with_client_forward_marker", 1)
							}
							if unknownTenant {
								desc += ", with an x-piko-tenant-id header although the port has no tenants"
								sh.Count("proxy_cases_with_unknown_tenant_header", 1)
							}
							served := stamp != ""
							if served && stampEndpoint(stamp) != target {
								sh.Violate("routed-elsewhere", fmt.Sprintf("%s: served by upstream %s: the endpoint that was routed to is not the one that was named", desc, stamp), c)
								return false
							}
							if cs.permits(target) && !unknownTenant {
								if !served || (status != 200 && status != 101) {
									if status == 502 {
										// routing hiccup (false suspicion under load): retry once after settling
										if ok, _ := WaitSettled(rg.nodes, 30*time.Second); ok {
											status, stamp, err = rg.proxyCase(c, tok)
											served = stamp != ""
										}
									}
									if err != nil || !served {
										sh.Violate("permitted-endpoint-refused", fmt.Sprintf("%s: answered %d although the token permits the endpoint", desc, status), c)
										return false
									}
								}
								sh.Count("permitted_served", 1)
							} else {
								if served || status != 401 {
									sh.Violate("endpoint-not-permitted-but-served", fmt.Sprintf("%s: answered %d (stamp %q) although the token does not list the endpoint", desc, status, stamp), c)
									return false
								}
								if after := rg.seenTotal(); after != before {
									sh.Violate("endpoint-not-permitted-but-served", fmt.Sprintf("%s: answered 401 but an upstream saw the request", desc), c)
									return false
								}
								sh.Count("not_permitted_refused", 1)
							}
							sh.Nontrivial(core.Hash("proxy", cs.Name, naming, target, other, via, variant))
						}
					}
				}
			}
		}
	}
	// ---- upstream port: listen on E with claims C
	n0 := rg.nodes[0]
	for _, cs := range c10ClaimSets {
		tok := hsToken(rg.key, cs.List, 24*time.Hour)
		for _, target := range append([]string{"fresh", "a.", "a*"}, c10Endpoints...) {
			base := copyEps(n0.Cluster().LocalNode().Endpoints)
			status, closeFn, err := upstreamHandshake(n0, target, [][2]string{{"Authorization", "Bearer " + tok}}, func() bool {
				return !sameEps(n0.Cluster().LocalNode().Endpoints, base)
			})
			sh.Eval()
			sh.Count("upstream_cases", 1)
			if err != nil {
				sh.Inconcl("listen %q with %s: %v", target, cs.Name, err)
				complete = false
				continue
			}
			now := copyEps(n0.Cluster().LocalNode().Endpoints)
			closeFn()
			desc := fmt.Sprintf("token %s listening on %q", cs.Name, target)
			c := map[string]any{"claims": cs.Name, "listen_on": target}
			if cs.permits(target) {
				if status != 101 {
					sh.Violate("permitted-endpoint-refused", fmt.Sprintf("%s: handshake answered %d", desc, status), c)
					return false
				}
				want := copyEps(base)
				want[target]++
				if !sameEps(now, want) {
					sh.Violate("registered-under-another-endpoint", fmt.Sprintf("%s: registry went from %v to %v, expected exactly one more upstream for %q", desc, base, now, target), c)
					return false
				}
				sh.Count("permitted_listens", 1)
			} else {
				if status != 401 {
					sh.Violate("endpoint-not-permitted-but-registered", fmt.Sprintf("%s: handshake answered %d instead of 401", desc, status), c)
					return false
				}
				if !sameEps(now, base) {
					sh.Violate("endpoint-not-permitted-but-registered", fmt.Sprintf("%s: answered 401 but the registry changed from %v to %v", desc, base, now), c)
					return false
				}
				sh.Count("refused_listens", 1)
			}
			// back to the baseline before the next case
			if !core.WaitUntil(20*time.Second, 2*time.Millisecond, func() bool { return sameEps(n0.Cluster().LocalNode().Endpoints, base) }) {
				sh.Inconcl("registry did not return to the baseline")
				return false
			}
			sh.Nontrivial(core.Hash("upstream", cs.Name, target))
		}
	}
	return complete
}

func copyEps(m map[string]int) map[string]int {
	out := map[string]int{}
	for k, v := range m {
		out[k] = v
	}
	return out
}

// upstreamHandshake performs the upstream WebSocket handshake for endpoint ep
// with the given headers. When accepted it keeps the connection until
// registered() reports the registration (bounded) and returns a close func.
func upstreamHandshake(n *Node, ep string, hs [][2]string, registered func() bool) (int, func(), error) {
	c, err := net.DialTimeout("tcp", n.UpstreamAddr(), 10*time.Second)
	if err != nil {
		return 0, nil, err
	}
	_ = c.SetDeadline(time.Now().Add(30 * time.Second))
	all := append(append([][2]string{}, hs...), [2]string{"Upgrade", "websocket"}, [2]string{"Connection", "Upgrade"},
		[2]string{"Sec-WebSocket-Version", "13"}, [2]string{"Sec-WebSocket-Key", "dGhlIHNhbXBsZSBub25jZQ=="})
	raw := strings.Replace(string(BuildRequest("GET", "/piko/v1/upstream/"+ep, "x", all, nil, false)), "Connection: close\r\n", "", 1)
	if _, err := c.Write([]byte(raw)); err != nil {
		c.Close()
		return 0, nil, err
	}
	resp, err := http.ReadResponse(bufio.NewReader(c), &http.Request{Method: "GET"})
	if err != nil {
		c.Close()
		return 0, nil, err
	}
	if resp.StatusCode == 101 {
		core.WaitUntil(5*time.Second, time.Millisecond, registered)
	}
	return resp.StatusCode, func() { c.Close() }, nil
}

// ---- tenants -------------------------------------------------------------------------------

func runC10Tenants(sh *core.Shard) bool {
	defKey := []byte("c10-default-key-0123456789abcdef")
	tenantKeys := map[string][]byte{
		"t1": []byte("c10-tenant-one-key-0123456789abc"),
		"t2": []byte("c10-tenant-two-key-0123456789abc"),
		"t3": []byte("c10-tenant-three-key-0123456789a"),
	}
	complete := true
	for ntenants := 0; ntenants <= 3; ntenants++ {
		for _, defaultAuth := range []bool{true, false} {
			if ntenants == 0 && !defaultAuth {
				continue // no verifier at all: nothing to confine
			}
			var tenants []config.TenantConfig
			var ids []string
			for i := 1; i <= ntenants; i++ {
				id := fmt.Sprintf("t%d", i)
				ids = append(ids, id)
				tenants = append(tenants, config.TenantConfig{ID: id, Auth: auth.Config{HMACSecretKey: string(tenantKeys[id])}})
			}
			o := NodeOpts{Tenants: tenants, GossipInterval: 100 * time.Millisecond}
			if defaultAuth {
				o.UpstreamAuth = auth.Config{HMACSecretKey: string(defKey)}
			}
			n, err := StartNode(o)
			if err != nil {
				sh.Inconcl("tenant node: %v", err)
				return false
			}
			signers := map[string][]byte{"default-key": defKey, "t1": tenantKeys["t1"], "t2": tenantKeys["t2"], "t3": tenantKeys["t3"], "unknown-key": []byte("nobody-knows-this-key-0123456789")}
			for signer, key := range signers {
				tok := sign("HS256", key, claimOpts{Exp: 24 * time.Hour})
				for _, hdr := range []string{"", "t1", "t2", "t3", "unknown", "T1", "default"} {
					var hs [][2]string
					hs = append(hs, [2]string{"Authorization", "Bearer " + tok})
					if hdr != "" {
						hs = append(hs, [2]string{"x-piko-tenant-id", hdr})
					}
					base := copyEps(n.Cluster().LocalNode().Endpoints)
					status, closeFn, err := upstreamHandshake(n, "tenant-ep", hs, func() bool { return n.Cluster().LocalNode().Endpoints["tenant-ep"] > 0 })
					sh.Eval()
					sh.Count("tenant_cases", 1)
					if err != nil {
						sh.Inconcl("tenant case: %v", err)
						complete = false
						continue
					}
					now := copyEps(n.Cluster().LocalNode().Endpoints)
					closeFn()
					// expected
					configured := false
					for _, id := range ids {
						if id == hdr {
							configured = true
						}
					}
					var want bool
					switch {
					case hdr == "":
						want = ntenants == 0 && defaultAuth && signer == "default-key"
					default:
						want = configured && signer == hdr
					}
					desc := fmt.Sprintf("%d tenants %v (default key configured=%v): token signed by %s, x-piko-tenant-id=%q", ntenants, ids, defaultAuth, signer, hdr)
					c := map[string]any{"tenants": ids, "default_auth": defaultAuth, "signed_by": signer, "tenant_header": hdr}
					if want {
						if status != 101 || now["tenant-ep"] != 1 {
							sh.Violate("tenant-token-refused", fmt.Sprintf("%s: expected to be accepted, handshake answered %d", desc, status), c)
							n.Stop()
							return false
						}
						sh.Count("tenant_accepted", 1)
					} else {
						if status != 401 || !sameEps(now, base) {
							sh.Violate("tenant-confinement-broken", fmt.Sprintf("%s: expected 401, handshake answered %d (registry %v)", desc, status, now), c)
							n.Stop()
							return false
						}
						sh.Count("tenant_refused", 1)
					}
					if !core.WaitUntil(20*time.Second, 2*time.Millisecond, func() bool { return len(n.Cluster().LocalNode().Endpoints) == 0 }) {
						sh.Inconcl("registry did not return to empty")
						n.Stop()
						return false
					}
					sh.Nontrivial(core.Hash("tenant", ntenants, defaultAuth, signer, hdr))
				}
			}
			n.Stop()
		}
	}
	return complete
}

func runC10(sh *core.Shard, a props.Args) {
	switch a.Shard {
	case 0:
		fmt.Println("CASE C10 endpoint confinement (proxy and upstream ports)")
		sh.Exhaustive["endpoint_claims_x_naming"] = runC10Endpoints(sh, a)
		sh.Sample(map[string]any{"claim_sets": c10ClaimSets, "endpoints": c10Endpoints, "naming": []string{"host", "header", "conflict", "tcp"}, "via": []string{"local", "forwarded"}})
	case 1:
		fmt.Println("CASE C10 tenant matrix")
		sh.Exhaustive["tenant_matrix"] = runC10Tenants(sh)
		sh.Sample(map[string]any{"tenant_tables": "0..3 tenants x default key configured or not", "signers": []string{"default-key", "t1", "t2", "t3", "unknown-key"}, "tenant_header": []string{"", "t1", "t2", "t3", "unknown", "T1", "default"}})
	}
}

func init() {
	props.Register(&props.Prop{
		ID: "C10", Level: "fault_enumeration", Race: true, ExhaustiveWhenAll: true,
		Rule: "endpoint confinement: a 2-node real cluster with HMAC auth on proxy and upstream ports and one stamping upstream per endpoint of {a, a1, A, a-b, b}; 11 claim sets (no claim, empty list, [a], [a b], [a1], [A], [a-b], [b], [a.], [a*], ['']) x naming in {first Host label, x-piko-endpoint header, conflicting Host label + header, /_piko/v1/tcp path, the TCP path with a header and Host label naming another endpoint} x every target (x every other endpoint in the Host for conflicts) x local and forwarded entry, the refusals also with the client itself sending the x-piko-forward marker, and every case also with an x-piko-tenant-id header (no tenants are configured on the proxy port, so all of those are refusals); oracle: served (2xx/101 + stamp) iff the claim set is empty or lists exactly the named endpoint, the stamp's endpoint equals the named endpoint (the endpoint checked is the endpoint routed to), otherwise 401 and no upstream saw the request. Upstream port: the same claim sets x 8 endpoint ids: accepted (101) iff permitted and then exactly one more upstream appears in the registry under exactly that id; otherwise 401 and the registry is unchanged. Tenant matrix: tenant tables of 0-3 tenants with distinct keys, with and without a default key; every (token signed by default / t1 / t2 / t3 / unknown key) x (x-piko-tenant-id absent, t1, t2, t3, unknown, T1, default): accepted iff the header names a configured tenant whose key signed the token, or no tenants are configured, no header is sent and the default key signed it. All three matrices are enumerated completely. Distinct = one per case.",
		Assumptions: []string{
			"HMAC keys (confinement logic is independent of the key family, which C09 covers)",
			"a 502 for a permitted endpoint is retried once after routing re-settles (false suspicion under load is not a confinement matter)",
		},
		RequireCounters: []string{"permitted_served", "not_permitted_refused", "proxy_cases_with_client_forward_marker", "proxy_cases_with_unknown_tenant_header", "permitted_listens", "refused_listens", "tenant_accepted", "tenant_refused"},
		Shards:          func(string) int { return 2 },
		Run:             runC10,
	})
}
