package main

import (
	"encoding/base64"
	"encoding/json"
	"fmt"
	"net"
	"os"
	"time"

	"github.com/andydunstall/piko/pkg/gossip"
)

type cc struct{}

func (c *cc) ReadFrom(p []byte) (int, net.Addr, error)  { select {} }
func (c *cc) WriteTo(p []byte, _ net.Addr) (int, error) { return len(p), nil }
func (c *cc) Close() error                              { return nil }
func (c *cc) LocalAddr() net.Addr                       { return &net.UDPAddr{} }
func (c *cc) SetDeadline(time.Time) error               { return nil }
func (c *cc) SetReadDeadline(time.Time) error           { return nil }
func (c *cc) SetWriteDeadline(time.Time) error          { return nil }

func main() {
	b, _ := os.ReadFile(os.Args[1])
	var w struct {
		Witness struct {
			Input string `json:"input"`
		} `json:"witness"`
	}
	json.Unmarshal(b, &w)
	in, _ := base64.StdEncoding.DecodeString(w.Witness.Input)
	v := gossip.NewVNode(gossip.VNodeConfig{ID: "victim", Addr: "127.0.0.1:7001", MaxPacketSize: 1400, StreamTimeout: 300 * time.Millisecond, PacketConn: &cc{}})
	client, server := net.Pipe()
	go func() { client.Write(in); client.Close() }()
	t := time.Now()
	err := v.HandleStream(server)
	fmt.Println("returned after", time.Since(t), err)
}
