// vcheck drives one property check: it shards the case list over child
// processes (crash isolation + parallelism), merges what the monitors observed,
// applies the known-findings list and writes the evidence file.
//
//	vcheck run   <ID> [--tier quick|thorough] [--seed N]
//	vcheck child <ID> --tier T --seed N --shard k --nshards W --out file
//	vcheck replay <path>
package main

import (
	"bytes"
	"encoding/json"
	"flag"
	"fmt"
	"os"
	"os/exec"
	"path/filepath"
	"regexp"
	"sort"
	"strconv"
	"strings"
	"sync"
	"syscall"
	"time"

	"verif/harness/core"
	_ "verif/harness/codecheck"
	_ "verif/harness/comp"
	_ "verif/harness/fdcheck"
	_ "verif/harness/gsim"
	_ "verif/harness/nodes"
	_ "verif/harness/procs"
	"verif/harness/props"
)

func verifDir() string {
	if d := os.Getenv("VERIF_DIR"); d != "" {
		return d
	}
	return "/verif"
}

func outDir() string {
	if d := os.Getenv("VERIF_OUT"); d != "" {
		return d
	}
	return verifDir()
}

func main() {
	if len(os.Args) < 3 {
		fmt.Fprintln(os.Stderr, "usage: vcheck run|child|replay ...")
		os.Exit(2)
	}
	switch os.Args[1] {
	case "run":
		os.Exit(run(os.Args[2], os.Args[3:]))
	case "child":
		os.Exit(child(os.Args[2], os.Args[3:]))
	case "replay":
		os.Exit(replay(os.Args[2]))
	default:
		fmt.Fprintln(os.Stderr, "unknown command")
		os.Exit(2)
	}
}

func child(id string, args []string) int {
	fs := flag.NewFlagSet("child", flag.ExitOnError)
	tier := fs.String("tier", "quick", "")
	seed := fs.Int64("seed", 1, "")
	shard := fs.Int("shard", 0, "")
	nshards := fs.Int("nshards", 1, "")
	out := fs.String("out", "", "")
	_ = fs.Parse(args)
	p := props.Get(id)
	if p == nil {
		fmt.Fprintln(os.Stderr, "unknown property", id)
		return 2
	}
	sh := core.NewShard(id, *seed, *shard, filepath.Join(outDir(), "replays", id))
	a := props.Args{Tier: *tier, Seed: *seed, Shard: *shard, NShards: *nshards,
		VerifDir: verifDir(), OutDir: outDir()}
	p.Run(sh, a)
	if err := os.WriteFile(*out, sh.Finish(), 0o644); err != nil {
		fmt.Fprintln(os.Stderr, "write result:", err)
		return 2
	}
	return 0
}

type childRes struct {
	shard    int
	res      *core.Shard
	err      error
	timedOut bool
	log      string
}

var raceRe = regexp.MustCompile(`WARNING: DATA RACE`)

func run(id string, args []string) int {
	fs := flag.NewFlagSet("run", flag.ExitOnError)
	tierF := fs.String("tier", "", "")
	seedF := fs.Int64("seed", -1, "")
	_ = fs.Parse(args)
	tier := *tierF
	if tier == "" {
		tier = os.Getenv("VERIF_TIER")
	}
	if tier != "thorough" {
		tier = "quick"
	}
	seed := *seedF
	if seed < 0 {
		seed = 1
		if s := os.Getenv("VERIF_SEED"); s != "" {
			if v, err := strconv.ParseInt(s, 10, 64); err == nil {
				seed = v
			}
		}
	}
	p := props.Get(id)
	if p == nil {
		fmt.Fprintln(os.Stderr, "unknown property", id)
		return 2
	}
	known, err := core.LoadKnown(filepath.Join(verifDir(), "known_findings.json"))
	if err != nil {
		fmt.Fprintln(os.Stderr, "known findings:", err)
		return 2
	}
	start := time.Now()
	exe, _ := os.Executable()
	logDir := filepath.Join(outDir(), "logs", id)
	_ = os.RemoveAll(logDir)
	_ = os.MkdirAll(logDir, 0o755)
	// stale replays of this property are removed so a path printed below
	// always belongs to this run
	_ = os.RemoveAll(filepath.Join(outDir(), "replays", id))

	nshards := p.Shards(tier)
	par := p.Parallel
	if par <= 0 {
		par = 16
	}
	timeout := p.Timeout(tier)
	results := make([]childRes, nshards)
	sem := make(chan struct{}, par)
	var wg sync.WaitGroup
	for k := 0; k < nshards; k++ {
		wg.Add(1)
		go func(k int) {
			defer wg.Done()
			sem <- struct{}{}
			defer func() { <-sem }()
			outFile := filepath.Join(logDir, fmt.Sprintf("shard-%d.json", k))
			logFile := filepath.Join(logDir, fmt.Sprintf("shard-%d.log", k))
			lf, _ := os.Create(logFile)
			defer lf.Close()
			cmd := exec.Command(exe, "child", id, "--tier", tier, "--seed", fmt.Sprint(seed),
				"--shard", fmt.Sprint(k), "--nshards", fmt.Sprint(nshards), "--out", outFile)
			cmd.Stdout = lf
			cmd.Stderr = lf
			cmd.Env = append(os.Environ(),
				"GORACE=halt_on_error=0 log_path="+filepath.Join(logDir, fmt.Sprintf("race-%d", k)),
				"GOTRACEBACK=all")
			r := childRes{shard: k, log: logFile}
			if err := cmd.Start(); err != nil {
				r.err = err
				results[k] = r
				return
			}
			done := make(chan error, 1)
			go func() { done <- cmd.Wait() }()
			select {
			case err := <-done:
				r.err = err
			case <-time.After(timeout):
				r.timedOut = true
				_ = cmd.Process.Signal(syscall.SIGQUIT)
				select {
				case <-done:
				case <-time.After(20 * time.Second):
					_ = cmd.Process.Kill()
					<-done
				}
			}
			if b, err := os.ReadFile(outFile); err == nil {
				var s core.Shard
				if json.Unmarshal(b, &s) == nil {
					r.res = &s
				}
			}
			results[k] = r
		}(k)
	}
	wg.Wait()

	// ---- merge ----
	var evals, inconclusive int64
	sigs := map[uint64]bool{}
	var samples []json.RawMessage
	counters := map[string]int64{}
	knownHits := map[string]int64{}
	var viols []core.Violation
	var notes []string
	exhaustive := map[string]bool{}
	extra := map[string]any{}
	checkErr := false
	maxKeys := map[string]bool{}
	for _, k := range p.MaxCounters {
		maxKeys[k] = true
	}
	for _, r := range results {
		if r.res != nil {
			evals += r.res.Evaluations
			inconclusive += r.res.Inconclusive
			for _, s := range r.res.SigList {
				sigs[s] = true
			}
			if len(samples) < 3 {
				samples = append(samples, r.res.Samples...)
			}
			for k, v := range r.res.Counters {
				if maxKeys[k] {
					if v > counters[k] {
						counters[k] = v
					}
				} else {
					counters[k] += v
				}
			}
			for k, v := range r.res.Known {
				knownHits[k] += v
			}
			viols = append(viols, r.res.Violations...)
			notes = append(notes, r.res.Notes...)
			for k, v := range r.res.Exhaustive {
				if prev, ok := exhaustive[k]; ok {
					exhaustive[k] = prev && v
				} else {
					exhaustive[k] = v
				}
			}
			for k, v := range r.res.Extra {
				extra[k] = v
			}
		}
		switch {
		case r.timedOut:
			if p.BoundedTime {
				viols = append(viols, core.Violation{Property: id, Signature: "watchdog",
					What: fmt.Sprintf("shard %d did not finish within the %s watchdog (goroutine dump in log)", r.shard, timeout), Replay: r.log})
			} else {
				inconclusive++
				notes = append(notes, fmt.Sprintf("inconclusive: shard %d hit the %s watchdog, see %s", r.shard, timeout, r.log))
				checkErr = true
			}
		case r.err != nil && r.res == nil:
			// the child died (panic, fatal error, os.Exit) before writing a result
			tail := tailOf(r.log, 40)
			if strings.Contains(tail, "VERIF-HARNESS-ERROR") {
				checkErr = true
				notes = append(notes, fmt.Sprintf("harness error in shard %d: %s", r.shard, lastLine(tail)))
			} else {
				viols = append(viols, core.Violation{Property: id, Signature: "process-crash",
					What: fmt.Sprintf("shard %d crashed: %v: %s", r.shard, r.err, crashLine(r.log)), Replay: r.log})
			}
		case r.res == nil:
			checkErr = true
			notes = append(notes, fmt.Sprintf("shard %d produced no result", r.shard))
		}
	}
	// race reports
	raceFiles, _ := filepath.Glob(filepath.Join(logDir, "race-*"))
	raceReports := 0
	raceStacks := map[string]string{}
	for _, f := range raceFiles {
		b, _ := os.ReadFile(f)
		n := len(raceRe.FindAll(b, -1))
		raceReports += n
		if n > 0 {
			for _, blk := range bytes.Split(b, []byte("==================")) {
				if raceRe.Match(blk) {
					raceStacks[raceKey(string(blk))] = f
				}
			}
		}
	}
	if p.Race {
		counters["race_reports"] = int64(raceReports)
		counters["race_reports_distinct"] = int64(len(raceStacks))
	}
	keys := make([]string, 0, len(raceStacks))
	for k := range raceStacks {
		keys = append(keys, k)
	}
	sort.Strings(keys)
	for _, k := range keys {
		viols = append(viols, core.Violation{Property: id, Signature: "data-race",
			What: "data race: " + k, Replay: raceStacks[k]})
	}

	// ---- verdict ----
	exit := 0
	unlisted := 0
	printedKnown := map[string]bool{}
	for _, v := range viols {
		if f := known.Match(id, v.Signature); f != nil {
			knownHits[v.Signature]++
			continue
		}
		unlisted++
		exit = 1
		if unlisted > 6 {
			continue
		}
		fmt.Printf("VIOLATION property=%s replay=%s\n", id, v.Replay)
		fmt.Printf("  [%s] %s\n", v.Signature, clip(v.What, 700))
	}
	for sig, n := range knownHits {
		if n == 0 || printedKnown[sig] {
			continue
		}
		if f := known.Match(id, sig); f != nil {
			fmt.Printf("KNOWN-FINDING: property=%s %s [%s, signature %s, re-observed %d times]\n", id, f.What, f.ID, sig, n)
			printedKnown[sig] = true
		} else {
			// a monitor classified something as a known signature that the
			// committed list does not contain: that is a violation.
			unlisted++
			fmt.Printf("VIOLATION property=%s replay=\n  signature %q observed %d times but not listed in known_findings.json\n", id, sig, n)
			exit = 1
		}
	}

	// every listed open finding of this property is named on every run, whether
	// or not this run's workload happened to reproduce it
	if known != nil {
		for _, f := range known.Open {
			if f.Property == id && !printedKnown[f.Signature] {
				fmt.Printf("KNOWN-FINDING: property=%s %s [%s, signature %s, not re-observed in this run]\n", id, f.What, f.ID, f.Signature)
				printedKnown[f.Signature] = true
			}
		}
	}

	cov := map[string]any{
		"evaluations":         evals,
		"distinct_nontrivial": len(sigs),
		"rule":                p.Rule,
		"samples":             samples,
		"inconclusive":        inconclusive,
		"shards":              nshards,
	}
	for k, v := range counters {
		cov[k] = v
	}
	for k, v := range extra {
		cov[k] = v
	}
	if len(exhaustive) > 0 {
		all := true
		for _, v := range exhaustive {
			all = all && v
		}
		cov["exhaustive_subspaces"] = exhaustive
		if p.ExhaustiveWhenAll && all {
			cov["exhaustive"] = true
		}
	}
	if len(knownHits) > 0 {
		cov["known_findings_reobserved"] = knownHits
	}
	if len(notes) > 0 {
		if len(notes) > 30 {
			notes = notes[:30]
		}
		cov["notes"] = notes
	}
	ev := &core.Evidence{PropertyID: id, Tier: tier, Seed: seed, Level: p.Level, Coverage: cov,
		Assumptions: p.Assumptions, WallS: time.Since(start).Seconds(), Violations: unlisted}
	if err := core.WriteEvidence(filepath.Join(outDir(), "evidence", id+".json"), ev); err != nil {
		fmt.Fprintln(os.Stderr, "evidence:", err)
		return 2
	}

	if exit == 0 {
		if checkErr {
			fmt.Printf("CHECK-ERROR property=%s %s\n", id, strings.Join(notes, "; "))
			return 2
		}
		if evals == 0 || len(sigs) < 2 {
			fmt.Printf("CHECK-ERROR property=%s observed nothing (evaluations=%d distinct_nontrivial=%d)\n", id, evals, len(sigs))
			return 2
		}
		if inconclusive*50 > evals {
			fmt.Printf("CHECK-ERROR property=%s too many inconclusive cases: %d of %d\n", id, inconclusive, evals)
			return 2
		}
		for _, k := range p.RequireCounters {
			if counters[k] == 0 {
				fmt.Printf("CHECK-ERROR property=%s monitor counter %q is zero: the workload did not exercise it\n", id, k)
				return 2
			}
		}
	}
	fmt.Printf("property=%s tier=%s seed=%d evaluations=%d distinct_nontrivial=%d inconclusive=%d violations=%d wall=%.1fs\n",
		id, tier, seed, evals, len(sigs), inconclusive, unlisted, time.Since(start).Seconds())
	return exit
}

func replay(path string) int {
	b, err := os.ReadFile(path)
	if err != nil {
		fmt.Fprintln(os.Stderr, err)
		return 2
	}
	var hdr struct {
		Property string          `json:"property"`
		Witness  json.RawMessage `json:"witness"`
	}
	if err := json.Unmarshal(b, &hdr); err != nil {
		// not a witness file (e.g. a crash log): print it
		fmt.Println(string(b))
		return 1
	}
	p := props.Get(hdr.Property)
	if p == nil || p.Replay == nil {
		fmt.Printf("property %s has no programmatic replay; witness follows\n%s\n", hdr.Property, string(b))
		return 1
	}
	what, violated := p.Replay(hdr.Witness)
	if violated {
		fmt.Printf("VIOLATION property=%s replay=%s\n  %s\n", hdr.Property, path, what)
		return 1
	}
	fmt.Printf("replay of %s: no violation reproduced (%s)\n", path, what)
	return 0
}

func clip(s string, n int) string {
	if len(s) > n {
		return s[:n] + "..."
	}
	return s
}

func tailOf(path string, n int) string {
	b, err := os.ReadFile(path)
	if err != nil {
		return ""
	}
	lines := strings.Split(strings.TrimRight(string(b), "\n"), "\n")
	if len(lines) > n {
		lines = lines[len(lines)-n:]
	}
	return strings.Join(lines, "\n")
}

func lastLine(s string) string {
	lines := strings.Split(strings.TrimSpace(s), "\n")
	return lines[len(lines)-1]
}

// crashLine finds the panic / fatal error line and the last CASE line.
func crashLine(path string) string {
	b, err := os.ReadFile(path)
	if err != nil {
		return ""
	}
	var crash, lastCase string
	for _, l := range strings.Split(string(b), "\n") {
		if crash == "" && (strings.HasPrefix(l, "panic:") || strings.HasPrefix(l, "fatal error:")) {
			crash = l
		}
		if strings.HasPrefix(l, "CASE ") && crash == "" {
			lastCase = l
		}
	}
	if len(lastCase) > 300 {
		lastCase = lastCase[:300] + "..."
	}
	return crash + " | last " + lastCase
}

var frameRe = regexp.MustCompile(`(?m)^  (\S+)\(\)\s*$`)

// raceKey de-duplicates race reports by the first function of each of the
// two stacks (line numbers stripped).
func raceKey(blk string) string {
	parts := regexp.MustCompile(`(?m)^(Previous |)(Read|Write|read|write|Atomic)[^\n]*\n`).Split(blk, -1)
	var fns []string
	for _, p := range parts[1:] {
		if m := frameRe.FindStringSubmatch(p); m != nil {
			fns = append(fns, m[1])
		}
		if len(fns) == 2 {
			break
		}
	}
	sort.Strings(fns)
	return strings.Join(fns, " <-> ")
}
