// Package core is the driver shared by every check: sharding into child
// processes, three-valued verdicts, known findings, evidence and replay files.
package core

import (
	"encoding/json"
	"fmt"
	"hash/fnv"
	"os"
	"path/filepath"
	"sort"
	"sync"
	"time"
)

// Violation is one refuted case.
type Violation struct {
	Property string `json:"property"`
	// Signature is a short machine-evaluated classification of the witness
	// ("" when the monitor has none); it is what known findings match on.
	Signature string `json:"signature,omitempty"`
	What      string `json:"what"`
	Replay    string `json:"replay,omitempty"`
}

// Shard collects what one child process observed.
type Shard struct {
	mu sync.Mutex

	Property     string             `json:"property"`
	Evaluations  int64              `json:"evaluations"`
	Sigs         map[uint64]bool    `json:"-"`
	SigList      []uint64           `json:"sigs"`
	Samples      []json.RawMessage  `json:"samples"`
	Counters     map[string]int64   `json:"counters"`
	Violations   []Violation        `json:"violations"`
	Known        map[string]int64   `json:"known"`
	Inconclusive int64              `json:"inconclusive"`
	Notes        []string           `json:"notes"`
	Exhaustive   map[string]bool    `json:"exhaustive,omitempty"`
	Extra        map[string]any     `json:"extra,omitempty"`

	replayDir string
	seed      int64
	shard     int
	nreplay   int
}

func NewShard(prop string, seed int64, shard int, replayDir string) *Shard {
	return &Shard{
		Property: prop, Sigs: map[uint64]bool{}, Counters: map[string]int64{},
		Known: map[string]int64{}, replayDir: replayDir, seed: seed, shard: shard,
		Exhaustive: map[string]bool{}, Extra: map[string]any{},
	}
}

func Hash(parts ...any) uint64 {
	h := fnv.New64a()
	for _, p := range parts {
		fmt.Fprintf(h, "%v|", p)
	}
	return h.Sum64()
}

func (s *Shard) Eval() { s.mu.Lock(); s.Evaluations++; s.mu.Unlock() }
func (s *Shard) EvalN(n int64) { s.mu.Lock(); s.Evaluations += n; s.mu.Unlock() }

// Nontrivial records the signature of a case that satisfied the
// property-specific non-triviality rule.
func (s *Shard) Nontrivial(sig uint64) { s.mu.Lock(); s.Sigs[sig] = true; s.mu.Unlock() }

func (s *Shard) Count(key string, n int64) { s.mu.Lock(); s.Counters[key] += n; s.mu.Unlock() }

// Max keeps the maximum seen for a counter.
func (s *Shard) Max(key string, n int64) {
	s.mu.Lock()
	if n > s.Counters[key] {
		s.Counters[key] = n
	}
	s.mu.Unlock()
}

func (s *Shard) Sample(v any) {
	s.mu.Lock()
	defer s.mu.Unlock()
	if len(s.Samples) >= 3 {
		return
	}
	b, err := json.Marshal(v)
	if err == nil {
		s.Samples = append(s.Samples, b)
	}
}

func (s *Shard) Note(format string, a ...any) {
	s.mu.Lock()
	if len(s.Notes) < 50 {
		s.Notes = append(s.Notes, fmt.Sprintf(format, a...))
	}
	s.mu.Unlock()
}

func (s *Shard) Inconcl(format string, a ...any) {
	s.mu.Lock()
	s.Inconclusive++
	if len(s.Notes) < 50 {
		s.Notes = append(s.Notes, "inconclusive: "+fmt.Sprintf(format, a...))
	}
	s.mu.Unlock()
}

// KnownHit records a re-observation of a listed finding (by signature).
func (s *Shard) KnownHit(sig string) { s.mu.Lock(); s.Known[sig]++; s.mu.Unlock() }

// Violate records a violation and writes the witness to a replay file.
func (s *Shard) Violate(sig, what string, witness any) {
	s.mu.Lock()
	defer s.mu.Unlock()
	s.Counters["violations_total"]++
	if len(s.Violations) >= 20 {
		return
	}
	s.nreplay++
	path := ""
	if s.replayDir != "" {
		_ = os.MkdirAll(s.replayDir, 0o755)
		path = filepath.Join(s.replayDir, fmt.Sprintf("%d-%d-%d.json", s.seed, s.shard, s.nreplay))
		b, _ := json.MarshalIndent(map[string]any{
			"property": s.Property, "seed": s.seed, "shard": s.shard,
			"signature": sig, "what": what, "witness": witness,
		}, "", " ")
		_ = os.WriteFile(path, b, 0o644)
	}
	s.Violations = append(s.Violations, Violation{Property: s.Property, Signature: sig, What: what, Replay: path})
}

func (s *Shard) Finish() []byte {
	s.mu.Lock()
	defer s.mu.Unlock()
	s.SigList = s.SigList[:0]
	for k := range s.Sigs {
		s.SigList = append(s.SigList, k)
	}
	sort.Slice(s.SigList, func(i, j int) bool { return s.SigList[i] < s.SigList[j] })
	b, _ := json.Marshal(s)
	return b
}

// ---- known findings --------------------------------------------------------

type Finding struct {
	ID        string `json:"id"`
	Property  string `json:"property"`
	Signature string `json:"signature"`
	What      string `json:"what"`
}

type KnownFindings struct {
	Open  []Finding `json:"open"`
	Fixed []string  `json:"fixed"`
}

func LoadKnown(path string) (*KnownFindings, error) {
	b, err := os.ReadFile(path)
	if err != nil {
		return nil, err
	}
	var k KnownFindings
	if err := json.Unmarshal(b, &k); err != nil {
		return nil, err
	}
	return &k, nil
}

func (k *KnownFindings) Match(prop, sig string) *Finding {
	if k == nil || sig == "" {
		return nil
	}
	for i := range k.Open {
		if k.Open[i].Property == prop && k.Open[i].Signature == sig {
			return &k.Open[i]
		}
	}
	return nil
}

// ---- evidence ---------------------------------------------------------------

type Evidence struct {
	PropertyID  string         `json:"property_id"`
	Tier        string         `json:"tier"`
	Seed        int64          `json:"seed"`
	Level       string         `json:"level"`
	Coverage    map[string]any `json:"coverage"`
	Assumptions []string       `json:"assumptions"`
	WallS       float64        `json:"wall_s"`
	Violations  int            `json:"violations"`
}

func WriteEvidence(path string, e *Evidence) error {
	_ = os.MkdirAll(filepath.Dir(path), 0o755)
	b, err := json.MarshalIndent(e, "", " ")
	if err != nil {
		return err
	}
	return os.WriteFile(path, b, 0o644)
}

// Deadline is a generous wall-clock watchdog helper. Its firing is
// inconclusive unless the property itself promises bounded time.
func WaitUntil(timeout time.Duration, step time.Duration, cond func() bool) bool {
	end := time.Now().Add(timeout)
	for {
		if cond() {
			return true
		}
		if time.Now().After(end) {
			return false
		}
		time.Sleep(step)
	}
}
