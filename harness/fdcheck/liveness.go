package fdcheck

import (
	"fmt"
	"math/big"
	"math/rand"
	"net"
	"sort"
	"time"

	"github.com/andydunstall/piko/pkg/gossip"

	"verif/harness/core"
	"verif/harness/props"
)

// Integration leg of C12: the real accrual detector behind the real
// clusterState.UpdateLiveness and the real packet listener, on a virtual clock.
// Arrivals are delta datagrams from a peer handled by the packet listener (the
// path that reports to the detector); ticks are UpdateLiveness calls. At every
// tick the unreachable flag of every peer that was heard from at least once must
// equal (reference level > threshold): a steady peer is never flagged, a silent
// one is flagged once the silence exceeds 20 mean intervals and STAYS flagged at
// every later tick until it is heard from again.

type vclockFD struct {
	d   *gossip.VAccrual
	now *int64
}

func (f *vclockFD) Report(id string)                 { f.d.ReportAt(id, at(*f.now)) }
func (f *vclockFD) SuspicionLevel(id string) float64 { return f.d.SuspicionAt(id, at(*f.now)) }
func (f *vclockFD) Remove(id string)                 { f.d.Remove(id) }

type nullConn struct{}

func (nullConn) ReadFrom([]byte) (int, net.Addr, error)     { select {} }
func (nullConn) WriteTo(p []byte, _ net.Addr) (int, error)  { return len(p), nil }
func (nullConn) Close() error                               { return nil }
func (nullConn) LocalAddr() net.Addr                        { return &net.UDPAddr{} }
func (nullConn) SetDeadline(time.Time) error                { return nil }
func (nullConn) SetReadDeadline(time.Time) error            { return nil }
func (nullConn) SetWriteDeadline(time.Time) error           { return nil }

type livenessCase struct {
	Kind      string `json:"kind"`
	Seed      int64  `json:"seed"`
	W         int    `json:"w"`
	Interval  int64  `json:"interval_ns"`
	Bootstrap int64  `json:"bootstrap_ns"`
	Peers     int    `json:"peers"`
}

type lvEvent struct {
	t    int64
	peer int // -1 = tick
}

func runLivenessCase(c livenessCase, ticks, flagged, recovered *int64) (string, string) {
	r := rand.New(rand.NewSource(c.Seed))
	var now int64
	fd := &vclockFD{d: gossip.NewVAccrual(time.Duration(c.Bootstrap), c.W), now: &now}
	obs := gossip.NewVNode(gossip.VNodeConfig{ID: "obs", Addr: "127.0.0.1:7000", MaxPacketSize: 1400, PacketConn: nullConn{}, FailureDetector: fd})
	th := float64(gossip.VSuspicionThreshold)
	thr := new(big.Rat).SetFloat64(th)
	type peer struct {
		id, addr string
		rf       *ref
		version  uint64
		// never-heard peers: time of the first tick, and whether flagged since
		firstTick int64
		everFlag  bool
	}
	peers := make([]*peer, c.Peers)
	var intro []gossip.VDeltaEntry
	for i := range peers {
		peers[i] = &peer{id: fmt.Sprintf("p%d", i), addr: fmt.Sprintf("127.0.0.1:%d", 7001+i), rf: &ref{w: c.W, bootstrap: c.Bootstrap}, version: 1, firstTick: -1}
		intro = append(intro, gossip.VDeltaEntry{ID: peers[i].id, Addr: peers[i].addr, Entries: []gossip.Entry{{Key: "k", Value: "v", Version: 1}}})
	}
	obs.ApplyDelta(intro)
	// build the event list: per peer phases of heartbeats and silence; ticks at the gossip interval
	var evs []lvEvent
	var end int64
	for i := range peers {
		// the first arrival precedes the first tick (at interval/2): a peer first
		// queried and only then heard gets a window seeded by the query, which the
		// never-heard contract covers instead
		t := int64(r.Intn(int(c.Interval / 4)))
		if i == c.Peers-1 && r.Intn(3) == 0 {
			continue // a peer that is never heard from
		}
		for phase := 0; phase < 2+r.Intn(3); phase++ {
			n := 2 + r.Intn(3*c.W/2+10)
			for k := 0; k < n; k++ {
				evs = append(evs, lvEvent{t, i})
				t += int64(float64(c.Interval) * (0.8 + 0.4*r.Float64()))
			}
			// silence of up to 60 mean intervals
			t += int64(float64(c.Interval) * float64(r.Intn(60)) * (0.5 + r.Float64()))
		}
		if t > end {
			end = t
		}
	}
	end += 45 * c.Interval
	for t := c.Interval / 2; t < end; t += c.Interval {
		evs = append(evs, lvEvent{t + int64(r.Intn(int(c.Interval/4+1))), -1})
	}
	sort.SliceStable(evs, func(i, j int) bool { return evs[i].t < evs[j].t })
	flags := func() map[string]bool {
		m := map[string]bool{}
		for _, n := range obs.Nodes() {
			m[n.ID] = n.Unreachable
		}
		return m
	}
	for _, e := range evs {
		if e.t <= now {
			e.t = now + 1
		}
		now = e.t
		if e.peer >= 0 {
			p := peers[e.peer]
			var entries []gossip.Entry
			if r.Intn(2) == 0 {
				p.version++
				entries = []gossip.Entry{{Key: "k", Value: fmt.Sprint(p.version), Version: p.version}}
			}
			b, err := gossip.VEncodeDelta(p.id, p.addr, []gossip.VDeltaEntry{{ID: p.id, Addr: p.addr, Entries: entries}}, 1400)
			if err != nil {
				return "", ""
			}
			if err := obs.HandlePacket(b); err != nil {
				return "harness", "delta packet rejected: " + err.Error()
			}
			p.rf.report(now)
			continue
		}
		obs.UpdateLiveness(th)
		*ticks++
		fl := flags()
		for _, p := range peers {
			got, known := fl[p.id]
			if !known {
				return "peer-forgotten", fmt.Sprintf("%+v: %s disappeared from the view at t=%d without any expiry sweep", c, p.id, now)
			}
			if !p.rf.heard {
				// never heard from: contract only
				if p.firstTick < 0 {
					p.firstTick = now
				}
				if p.everFlag && !got {
					return "silent-peer-recovered", fmt.Sprintf("%+v: %s was never heard from, was flagged unreachable, and is reachable again at t=%d without an arrival", c, p.id, now)
				}
				if got {
					p.everFlag = true
				} else if now-p.firstTick > 20*c.Bootstrap+c.Bootstrap/50+2*c.Interval {
					return "never-heard-not-suspected", fmt.Sprintf("%+v: %s was never heard from and is still reachable %d ns after the first liveness tick (20 x bootstrap = %d)", c, p.id, now-p.firstTick, 20*c.Bootstrap)
				}
				continue
			}
			lvl := p.rf.level(now)
			diff := new(big.Rat).Sub(lvl, thr)
			tol := new(big.Rat).Mul(thr, big.NewRat(1, 1_000_000))
			if new(big.Rat).Abs(diff).Cmp(tol) <= 0 {
				continue // at the boundary float rounding decides
			}
			want := diff.Sign() > 0
			if got != want {
				lf, _ := lvl.Float64()
				sig := "silent-peer-not-flagged"
				if got {
					sig = "heard-peer-flagged"
				} else if now-p.rf.last > c.Interval*2 {
					sig = "silent-peer-recovered"
				}
				return sig, fmt.Sprintf("%+v: at the liveness tick t=%d %s is unreachable=%v, but it was last heard %d ns ago and silence/mean of its last %d intervals is %.4f (threshold %v)", c, now, p.id, got, now-p.rf.last, len(p.rf.ivs), lf, th)
			}
			if got {
				*flagged++
			}
		}
	}
	for _, p := range peers {
		if p.rf.heard && len(p.rf.ivs) > 1 {
			*recovered++
		}
	}
	return "", ""
}

func genLivenessCase(seed int64) livenessCase {
	r := rand.New(rand.NewSource(seed))
	ws := []int{3, 7, 50}
	c := livenessCase{Kind: "liveness", Seed: seed, W: ws[r.Intn(len(ws))], Peers: 2 + r.Intn(2)}
	c.Interval = 1_000_000 * int64(10+r.Intn(500))
	c.Bootstrap = 2 * c.Interval // as piko configures it
	if r.Intn(4) == 0 {
		c.Bootstrap = c.Interval/2 + r.Int63n(4*c.Interval)
	}
	return c
}

func runLiveness(sh *core.Shard, a props.Args) bool {
	cases := a.Pick(3000, 150000)
	var ticks, flagged, recovered int64
	ok := true
	for i := 0; i < cases; i++ {
		if !a.Mine(i) {
			continue
		}
		c := genLivenessCase(a.CaseSeed(9_000_000 + i))
		sig, what := runLivenessCase(c, &ticks, &flagged, &recovered)
		sh.Eval()
		if sig != "" {
			fmt.Printf("CASE C12 liveness i=%d %+v\n", i, c)
			sh.Violate(sig, what, c)
			ok = false
			break
		}
	}
	sh.Count("liveness_ticks", ticks)
	sh.Count("liveness_ticks_with_flagged_peer", flagged)
	sh.Count("liveness_cases", 1)
	return ok
}

var _ props.Args
