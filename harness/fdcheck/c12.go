// Package fdcheck decides C12 on the real accrual failure detector against an
// exact rational reference.
package fdcheck

import (
	"fmt"
	"math"
	"math/big"
	"math/rand"
	"time"

	"github.com/andydunstall/piko/pkg/gossip"

	"verif/harness/core"
	"verif/harness/props"
)

// ref is the reference: a deque of the last W intervals whose first element
// is the bootstrap interval.
type ref struct {
	w         int
	bootstrap int64
	ivs       []int64
	last      int64
	heard     bool
}

func (r *ref) report(t int64) {
	if r.heard {
		r.ivs = append(r.ivs, t-r.last)
	} else {
		r.ivs = append(r.ivs, r.bootstrap)
	}
	if len(r.ivs) > r.w {
		r.ivs = r.ivs[len(r.ivs)-r.w:]
	}
	r.last = t
	r.heard = true
}

// level = silence / mean = silence * n / sum
func (r *ref) level(t int64) *big.Rat {
	var sum int64
	for _, v := range r.ivs {
		sum += v
	}
	num := new(big.Int).Mul(big.NewInt(t-r.last), big.NewInt(int64(len(r.ivs))))
	return new(big.Rat).SetFrac(num, big.NewInt(sum))
}

func (r *ref) mean() *big.Rat {
	var sum int64
	for _, v := range r.ivs {
		sum += v
	}
	return big.NewRat(sum, int64(len(r.ivs)))
}

var base = time.Unix(1_000_000_000, 0)

func at(ns int64) time.Time { return base.Add(time.Duration(ns)) }

type caseDesc struct {
	W         int     `json:"w"`
	Bootstrap int64   `json:"bootstrap_ns"`
	Regime    string  `json:"regime"`
	Arrivals  int     `json:"arrivals"`
	Seed      int64   `json:"seed"`
	Interval  int64   `json:"interval_ns,omitempty"`
	Jitter    float64 `json:"jitter,omitempty"`
	// QueriedFirst: the liveness task asks for the peer's level before the peer
	// was ever heard from (a node learned from a third party). How that first
	// window is seeded is not part of the property, so levels are compared only
	// once the window holds nothing but real inter-arrival times (after W+1
	// arrivals); from then on the peer is like any other.
	QueriedFirst bool `json:"queried_first,omitempty"`
	// Recycled: before the sequence starts the detector has heard another peer
	// (or, SameID, an earlier incarnation of this one) Prev times and then had
	// that history removed (what RemoveExpired does when a node is forgotten).
	// A removed history must leave nothing behind: the reference starts fresh.
	Recycled bool `json:"recycled,omitempty"`
	SameID   bool `json:"same_id,omitempty"`
	Prev     int  `json:"prev_arrivals,omitempty"`
}

func close9(got float64, want *big.Rat) bool {
	w, _ := want.Float64()
	if math.IsNaN(got) || math.IsInf(got, 0) {
		return false
	}
	if w == 0 {
		return got == 0
	}
	return math.Abs(got-w) <= 1e-9*math.Abs(w)
}

// runCase drives one arrival sequence; returns number of queries made and a
// violation (sig, what) if any.
func runCase(c caseDesc, queries *int64) (string, string) {
	r := rand.New(rand.NewSource(c.Seed))
	fd := gossip.NewVAccrual(time.Duration(c.Bootstrap), c.W)
	rf := &ref{w: c.W, bootstrap: c.Bootstrap}
	t := int64(r.Intn(1000))
	iv := c.Interval
	var trace []int64
	if c.Recycled {
		id := "prev"
		if c.SameID {
			id = "p"
		}
		for k := 0; k < c.Prev; k++ {
			t += 1 + r.Int63n(1+c.Interval)
			fd.ReportAt(id, at(t))
			if k%3 == 0 {
				_ = fd.SuspicionAt(id, at(t+r.Int63n(1+c.Interval)))
			}
		}
		fd.Remove(id)
		if r.Intn(2) == 0 {
			fd.Remove(id) // removing an unknown peer is a no-op
		}
		t += 1 + r.Int63n(1+c.Interval)
	}
	if c.QueriedFirst {
		if got := fd.SuspicionAt("p", at(t)); math.IsNaN(got) || math.IsInf(got, 0) || got < 0 {
			return "never-heard-level", fmt.Sprintf("%+v: level %v for a never-heard peer", c, got)
		}
		*queries++
		t += 1 + r.Int63n(1+c.Bootstrap)
	}
	comparable := func(i int) bool { return !c.QueriedFirst || i >= c.W+1 }
	for i := 0; i < c.Arrivals; i++ {
		var d int64
		switch c.Regime {
		case "steady":
			d = iv
		case "jitter":
			d = int64(float64(iv) * (1 + c.Jitter*(2*r.Float64()-1)))
		case "bursty":
			if r.Intn(4) == 0 {
				d = iv * int64(2+r.Intn(10))
			} else {
				d = 1 + iv/int64(10+r.Intn(50))
			}
		case "drift":
			iv = iv + iv/20
			d = iv
		case "random":
			d = 1 + r.Int63n(1+int64(1)<<uint(r.Intn(40)))
		}
		if d < 1 {
			d = 1
		}
		if i > 0 {
			t += d
			// before the arrival: the level the liveness task would see
			got := fd.SuspicionAt("p", at(t))
			*queries++
			want := rf.level(t)
			if comparable(i) && !close9(got, want) {
				wf, _ := want.Float64()
				return "level-mismatch", fmt.Sprintf("%+v: before arrival %d (t=%d) level=%v, silence/mean of last %d intervals gives %v; intervals %v", c, i, t, got, len(rf.ivs), wf, rf.ivs)
			}
			if comparable(i) && (c.Regime == "steady" || c.Regime == "jitter") && got >= 20 {
				return "steady-peer-suspected", fmt.Sprintf("%+v: steady peer reached level %v before arrival %d", c, got, i)
			}
		}
		fd.ReportAt("p", at(t))
		rf.report(t)
		trace = append(trace, t)
		// zero at the instant of an arrival
		if got := fd.SuspicionAt("p", at(t)); got != 0 {
			return "nonzero-at-arrival", fmt.Sprintf("%+v: level %v at the instant of arrival %d", c, got, i)
		}
		*queries++
		// a seeded later query, sometimes
		if r.Intn(3) == 0 {
			q := t + r.Int63n(1+int64(1)<<uint(r.Intn(36)))
			got := fd.SuspicionAt("p", at(q))
			*queries++
			if want := rf.level(q); comparable(i+1) && !close9(got, want) {
				wf, _ := want.Float64()
				return "level-mismatch", fmt.Sprintf("%+v: after arrival %d query at +%d level=%v, expected %v; intervals %v", c, i, q-t, got, wf, rf.ivs)
			}
		}
	}
	if !comparable(c.Arrivals) {
		return "", ""
	}
	// silence: strictly beyond 20 * mean the level exceeds the threshold,
	// and it grows monotonically
	mean := rf.mean()
	m, _ := mean.Float64()
	silence := int64(20*m*1.001) + 2
	if got := fd.SuspicionAt("p", at(t+silence)); !(got > 20) {
		return "silent-peer-not-suspected", fmt.Sprintf("%+v: after %d ns of silence (mean interval %v) level is only %v", c, silence, m, got)
	}
	*queries++
	prev := -1.0
	for k := int64(1); k <= 8; k++ {
		got := fd.SuspicionAt("p", at(t+k*silence/4))
		*queries++
		if got < prev {
			return "level-not-monotone", fmt.Sprintf("%+v: level decreased with longer silence: %v -> %v", c, prev, got)
		}
		prev = got
	}
	// eviction: a second detector fed a different prefix but the same last W
	// intervals reports identical levels
	if c.Arrivals >= c.W+1 {
		fd2 := gossip.NewVAccrual(time.Duration(1+r.Int63n(int64(time.Hour))), c.W)
		n := len(trace)
		tail := trace[n-c.W-1:]
		shift := int64(r.Intn(1_000_000))
		// different prefix
		pt := tail[0] + shift - int64(1+r.Intn(1000))*int64(1+r.Intn(1_000_000))
		for k := 0; k < 1+r.Intn(2*c.W+2); k++ {
			fd2.ReportAt("p", at(pt))
			pt += 1 + r.Int63n(1_000_000)
			if pt >= tail[0]+shift {
				break
			}
		}
		for _, x := range tail {
			fd2.ReportAt("p", at(x+shift))
		}
		for _, dq := range []int64{0, 1, m2(m), silence} {
			a := fd.SuspicionAt("p", at(t+dq))
			b := fd2.SuspicionAt("p", at(t+shift+dq))
			*queries += 2
			if a != b {
				return "old-arrivals-influence-level", fmt.Sprintf("%+v: two histories with the same last %d intervals give levels %v and %v at silence %d", c, c.W, a, b, dq)
			}
		}
	}
	return "", ""
}

func m2(m float64) int64 { return int64(m) + 1 }

// neverHeard checks only the contract for a peer that was never heard from.
func neverHeard(c caseDesc, queries *int64) (string, string) {
	r := rand.New(rand.NewSource(c.Seed))
	fd := gossip.NewVAccrual(time.Duration(c.Bootstrap), c.W)
	t0 := int64(r.Intn(1_000_000))
	prev := -1.0
	for _, dq := range []int64{0, c.Bootstrap / 2, c.Bootstrap, 5 * c.Bootstrap, 20*c.Bootstrap + c.Bootstrap/100 + 2, 40 * c.Bootstrap} {
		got := fd.SuspicionAt("ghost", at(t0+dq))
		*queries++
		if math.IsNaN(got) || math.IsInf(got, 0) || got < 0 {
			return "never-heard-level", fmt.Sprintf("%+v: level %v for a never-heard peer", c, got)
		}
		if got < prev {
			return "never-heard-level", fmt.Sprintf("%+v: level of a never-heard peer decreased %v -> %v", c, prev, got)
		}
		prev = got
		if dq > 20*c.Bootstrap && !(got > 20) {
			return "never-heard-not-suspected", fmt.Sprintf("%+v: never-heard peer still at level %v after %d ns (20 x bootstrap = %d)", c, got, dq, 20*c.Bootstrap)
		}
	}
	return "", ""
}

func genCase(seed int64) caseDesc {
	r := rand.New(rand.NewSource(seed))
	ws := []int{1, 2, 3, 7, 50}
	w := ws[r.Intn(len(ws))]
	regimes := []string{"steady", "jitter", "bursty", "drift", "random"}
	c := caseDesc{W: w, Regime: regimes[r.Intn(len(regimes))], Seed: seed}
	c.Interval = 1000 + r.Int63n(int64(1)<<uint(10+r.Intn(24)))
	switch c.Regime {
	case "steady", "jitter":
		// bootstrap within 8x of the steady interval (piko uses 2x the gossip interval)
		f := math.Pow(2, 6*r.Float64()-3)
		c.Bootstrap = int64(float64(c.Interval)*f) + 1
		c.Jitter = 0.5 * r.Float64()
	default:
		c.Bootstrap = 1 + r.Int63n(int64(1)<<uint(r.Intn(34)))
	}
	lens := []int{1, 2, w, w + 1, w + 2, 2*w + 1, 5*w + 3, r.Intn(5*w + 4)}
	c.Arrivals = 1 + lens[r.Intn(len(lens))]
	if r.Intn(4) == 0 {
		c.QueriedFirst = true
		c.Arrivals += w + 1
	}
	if r.Intn(4) == 0 {
		c.Recycled = true
		c.SameID = r.Intn(2) == 0
		c.Prev = []int{1, w, w + 1, 2*w + 1, 1 + r.Intn(3*w+2)}[r.Intn(5)]
	}
	return c
}

func run(sh *core.Shard, a props.Args) {
	if !runLiveness(sh, a) {
		return
	}
	cases := a.Pick(60000, 3000000)
	var queries int64
	for i := 0; i < cases; i++ {
		if !a.Mine(i) {
			continue
		}
		c := genCase(a.CaseSeed(i))
		if i%500 == 0 {
			fmt.Printf("CASE C12 i=%d %+v\n", i, c)
		}
		sig, what := runCase(c, &queries)
		if sig == "" && i%10 == 0 {
			sig, what = neverHeard(c, &queries)
		}
		sh.Eval()
		if i < 3 {
			sh.Sample(c)
		}
		if c.QueriedFirst {
			sh.Count("queried_before_heard_cases", 1)
		}
		if c.Recycled {
			sh.Count("history_removed_before_cases", 1)
		}
		if c.Arrivals > c.W+1 {
			sh.Nontrivial(core.Hash(c.W, c.Bootstrap, c.Regime, c.Arrivals, c.Seed))
			sh.Count("window_wrapped_cases", 1)
		}
		if sig != "" {
			sh.Violate(sig, what, c)
		}
	}
	sh.Count("queries", queries)
}

func init() {
	props.Register(&props.Prop{
		ID: "C12", Level: "exploration",
		Rule: "seeded strictly increasing arrival sequences (length 1..5W+3, W in {1,2,3,7,50}, regimes steady/jitter/bursty/drift/random, intervals 1 ns .. hours) fed to the real accrualFailureDetector with explicit timestamps; in a quarter of the cases the detector has first heard another peer, or an earlier incarnation of the same id, 1..3W+2 times and had that history removed (Remove, as RemoveExpired does), after which the reference starts fresh; every query compared with an exact big.Rat reference (silence x n / sum of the last W intervals, first sample = bootstrap); zero at arrival; steady peers stay below 20; silence beyond 20 x mean exceeds 20; histories sharing the last W intervals give identical levels; never-heard peers: contract only; a quarter of the cases query the peer before its first arrival (a node learned from a third party) and are compared with the reference once the window holds only real inter-arrival times. Integration leg: the real detector behind the real clusterState.UpdateLiveness and packet listener on a virtual clock (2-3 peers, heartbeat and silence phases, delta datagrams as arrivals, a tick per gossip interval): at every tick a heard peer is flagged unreachable iff the reference level exceeds the threshold, so a silent peer stays flagged until it is heard again. Non-trivial = the sequence is longer than the window (eviction happened); distinct = hash of the case parameters.",
		Assumptions: []string{
			"steady-peer claim asserted only when the bootstrap interval is within 8x of the peer's interval (piko configures 2x the gossip interval)",
			"timestamps supplied through ReportWithTimestamp/SuspicionLevelAt; Report()/SuspicionLevel() only add time.Now()",
		},
		RequireCounters: []string{"queries", "window_wrapped_cases", "liveness_ticks", "liveness_ticks_with_flagged_peer", "queried_before_heard_cases", "history_removed_before_cases"},
		Timeout: func(t string) time.Duration {
			if t == "thorough" {
				return 60 * time.Minute
			}
			return 5 * time.Minute
		},
		Run: run,
		Replay: nil,
	})
}
