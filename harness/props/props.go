// Package props is the registry of property checks.
package props

import (
	"encoding/json"
	"time"

	"verif/harness/core"
)

type Args struct {
	Tier     string
	Seed     int64
	Shard    int
	NShards  int
	VerifDir string
	OutDir   string
}

func (a Args) Thorough() bool { return a.Tier == "thorough" }

// Pick returns q for the quick tier and t for the thorough tier.
func (a Args) Pick(q, t int) int {
	if a.Thorough() {
		return t
	}
	return q
}

// CaseSeed derives the PRNG seed of case i from the run seed: case lists are
// a pure function of (seed, tier), never of time.
func (a Args) CaseSeed(i int) int64 {
	return int64(core.Hash(a.Seed, "case", i) & 0x7fffffffffffffff)
}

// Mine reports whether case i belongs to this shard.
func (a Args) Mine(i int) bool { return i%a.NShards == a.Shard }

type Prop struct {
	ID          string
	Level       string
	Race        bool // must be run with the -race binary
	Parallel    int  // max concurrent child processes (0 = 16)
	Rule        string
	Assumptions []string
	// BoundedTime: the property itself promises bounded completion, so a
	// watchdog expiry is a violation rather than inconclusive.
	BoundedTime       bool
	ExhaustiveWhenAll bool
	MaxCounters       []string
	RequireCounters   []string
	Shards            func(tier string) int
	Timeout           func(tier string) time.Duration
	Run               func(sh *core.Shard, a Args)
	Replay            func(witness json.RawMessage) (what string, violated bool)
}

var registry = map[string]*Prop{}

func Register(p *Prop) {
	if p.Shards == nil {
		p.Shards = func(string) int { return 16 }
	}
	if p.Timeout == nil {
		p.Timeout = func(tier string) time.Duration {
			if tier == "thorough" {
				return 60 * time.Minute
			}
			return 10 * time.Minute
		}
	}
	registry[p.ID] = p
}

func Get(id string) *Prop { return registry[id] }

func All() []string {
	var ids []string
	for k := range registry {
		ids = append(ids, k)
	}
	return ids
}
