// Package procs is engine E3: clusters of real `piko server` processes started
// from the freshly built binary, a small TCP load balancer in front of their
// upstream ports, observation through the admin API, and SIGTERM / SIGKILL at
// chosen phases.
package procs

import (
	"context"
	"encoding/json"
	"errors"
	"fmt"
	"io"
	"math/rand"
	"net"
	"net/http"
	"net/url"
	"os"
	"os/exec"
	"path/filepath"
	"strings"
	"sync"
	"sync/atomic"
	"syscall"
	"time"

	"github.com/andydunstall/piko/client"

	"verif/harness/core"
	"verif/harness/nodes"
	"verif/harness/props"
)

type proc struct {
	id                              string
	proxy, upstream, admin, gossip  string
	cmd                             *exec.Cmd
	exited                          chan struct{}
	exitErr                         error
	exitAt                          time.Time
	log                             string
}

func (p *proc) alive() bool {
	select {
	case <-p.exited:
		return false
	default:
		return true
	}
}

func freePorts(n int) ([]int, error) {
	var ls []net.Listener
	var ports []int
	for i := 0; i < n; i++ {
		l, err := net.Listen("tcp", "127.0.0.1:0")
		if err != nil {
			return nil, err
		}
		ls = append(ls, l)
		ports = append(ports, l.Addr().(*net.TCPAddr).Port)
	}
	for _, l := range ls {
		l.Close()
	}
	return ports, nil
}

func startProc(bin, dir, id string, join []string, grace time.Duration, extra ...string) (*proc, error) {
	ports, err := freePorts(4)
	if err != nil {
		return nil, err
	}
	a := func(i int) string { return fmt.Sprintf("127.0.0.1:%d", ports[i]) }
	p := &proc{id: id, proxy: a(0), upstream: a(1), admin: a(2), gossip: a(3), exited: make(chan struct{}), log: filepath.Join(dir, id+".log")}
	args := []string{"server",
		"--cluster.node-id", id,
		"--proxy.bind-addr", p.proxy, "--upstream.bind-addr", p.upstream, "--admin.bind-addr", p.admin,
		"--cluster.gossip.bind-addr", p.gossip, "--cluster.gossip.interval", "50ms",
		"--grace-period", grace.String(), "--proxy.timeout", "5s", "--log.level", "warn"}
	if len(join) > 0 {
		args = append(args, "--cluster.join", strings.Join(join, ","))
	}
	args = append(args, extra...)
	lf, err := os.Create(p.log)
	if err != nil {
		return nil, err
	}
	p.cmd = exec.Command(bin, args...)
	p.cmd.Stdout, p.cmd.Stderr = lf, lf
	p.cmd.Env = append(os.Environ(), "GORACE=halt_on_error=0 log_path="+filepath.Join(dir, "race-"+id))
	if err := p.cmd.Start(); err != nil {
		return nil, err
	}
	go func() {
		p.exitErr = p.cmd.Wait()
		p.exitAt = time.Now()
		lf.Close()
		close(p.exited)
	}()
	// wait until ready
	ok := core.WaitUntil(30*time.Second, 20*time.Millisecond, func() bool {
		if !p.alive() {
			return true
		}
		r, err := nodes.Get(p.admin, p.admin, "/ready", nil, 2*time.Second)
		return err == nil && r.Status == 200
	})
	if !ok || !p.alive() {
		return nil, fmt.Errorf("node %s did not become ready (see %s)", id, p.log)
	}
	return p, nil
}

type nodeView struct {
	ID        string         `json:"id"`
	Status    string         `json:"status"`
	Endpoints map[string]int `json:"endpoints"`
}

func (p *proc) getJSON(path string, v any) (int, error) {
	r, err := nodes.Get(p.admin, p.admin, path, nil, 5*time.Second)
	if err != nil {
		return 0, err
	}
	if r.Status != 200 {
		return r.Status, nil
	}
	return 200, json.Unmarshal(r.Body, v)
}

// viewOf returns p's routing-table entry for node id ("" status = absent).
func (p *proc) viewOf(id string) (nodeView, error) {
	var v nodeView
	st, err := p.getJSON("/status/cluster/nodes/"+id, &v)
	if err != nil {
		return v, err
	}
	if st == 404 {
		return nodeView{ID: id}, nil
	}
	return v, nil
}

func (p *proc) local() (nodeView, error) {
	var v nodeView
	_, err := p.getJSON("/status/cluster/nodes/local", &v)
	return v, err
}

func (p *proc) remoteRequestsTo(victim string) float64 {
	r, err := nodes.Get(p.admin, p.admin, "/metrics", nil, 5*time.Second)
	if err != nil {
		return -1
	}
	var t float64
	for _, l := range strings.Split(string(r.Body), "\n") {
		if strings.HasPrefix(l, "piko_upstreams_remote_requests_total") && strings.Contains(l, `node_id="`+victim+`"`) {
			var v float64
			fmt.Sscan(l[strings.LastIndexByte(l, ' ')+1:], &v)
			t += v
		}
	}
	return t
}

// ---- load balancer in front of the upstream ports -------------------------------------------

type lb struct {
	ln     net.Listener
	mu     sync.Mutex
	back   []string
	prefer int
	conns  atomic.Int64
	// outage: every new connection is closed at once and its arrival recorded;
	// the connections open at the start of the outage are cut
	down     bool
	attempts []time.Time
	open     map[net.Conn]struct{}
}

func (b *lb) setDown(down bool) {
	b.mu.Lock()
	b.down = down
	if down {
		b.attempts = nil
		for c := range b.open {
			c.Close()
		}
	}
	b.mu.Unlock()
}

func (b *lb) attemptTimes() []time.Time {
	b.mu.Lock()
	defer b.mu.Unlock()
	return append([]time.Time{}, b.attempts...)
}

func newLB(back []string) (*lb, error) {
	ln, err := net.Listen("tcp", "127.0.0.1:0")
	if err != nil {
		return nil, err
	}
	b := &lb{ln: ln, back: back, prefer: -1}
	go func() {
		for {
			c, err := ln.Accept()
			if err != nil {
				return
			}
			go b.serve(c)
		}
	}()
	return b, nil
}

func (b *lb) setPrefer(i int) { b.mu.Lock(); b.prefer = i; b.mu.Unlock() }

func (b *lb) serve(c net.Conn) {
	defer c.Close()
	b.mu.Lock()
	if b.down {
		b.attempts = append(b.attempts, time.Now())
		b.mu.Unlock()
		return
	}
	if b.open == nil {
		b.open = map[net.Conn]struct{}{}
	}
	b.open[c] = struct{}{}
	defer func() { b.mu.Lock(); delete(b.open, c); b.mu.Unlock() }()
	order := rand.Perm(len(b.back))
	if b.prefer >= 0 {
		order = append([]int{b.prefer}, order...)
	}
	back := append([]string{}, b.back...)
	b.mu.Unlock()
	for _, i := range order {
		u, err := net.DialTimeout("tcp", back[i], time.Second)
		if err != nil {
			continue
		}
		b.conns.Add(1)
		done := make(chan struct{}, 2)
		go func() { _, _ = io.Copy(u, c); done <- struct{}{} }()
		go func() { _, _ = io.Copy(c, u); done <- struct{}{} }()
		<-done
		u.Close()
		c.Close()
		<-done
		return
	}
}

// ---- upstream listeners ----------------------------------------------------------------------

type listener struct {
	ep       string
	ln       client.Listener
	srv      *http.Server
	serveErr atomic.Value // error returned by Serve (Accept gave up)
	slow     atomic.Int64 // nanoseconds to sleep per request
	served   atomic.Int64
}

func listenVia(lbAddr, ep string, agentStyle bool, token ...string) (*listener, error) {
	u, _ := url.Parse("http://" + lbAddr)
	up := &client.Upstream{URL: u, MinReconnectBackoff: 50 * time.Millisecond, MaxReconnectBackoff: 500 * time.Millisecond}
	if len(token) > 0 {
		up.Token = token[0]
	}
	var ln client.Listener
	var err error
	if agentStyle {
		ctx, cancel := context.WithTimeout(context.Background(), 10*time.Second)
		ln, err = up.Listen(ctx, ep)
		cancel()
	} else {
		ctx, cancel := context.WithCancel(context.Background())
		t := time.AfterFunc(10*time.Second, cancel)
		ln, err = up.Listen(ctx, ep)
		if err == nil {
			t.Stop()
		}
	}
	if err != nil {
		return nil, err
	}
	l := &listener{ep: ep, ln: ln}
	l.srv = &http.Server{Handler: http.HandlerFunc(func(w http.ResponseWriter, r *http.Request) {
		if d := l.slow.Load(); d > 0 {
			time.Sleep(time.Duration(d))
		}
		l.served.Add(1)
		w.Header().Set("X-Stamp", ep)
		w.WriteHeader(200)
	})}
	go func() {
		err := l.srv.Serve(ln)
		if err == nil {
			err = errors.New("serve returned")
		}
		l.serveErr.Store(err)
	}()
	return l, nil
}

func (l *listener) close() {
	_ = l.srv.Close()
	if s, ok := l.ln.(interface{ Shutdown() error }); ok {
		_ = s.Shutdown()
	}
}

// ---- one fault case ------------------------------------------------------------------------

const c18Secret = "c18-shared-secret-0123456789abcdef"

type c18case struct {
	Nodes  int    `json:"nodes"`
	Victim int    `json:"victim"`
	Phase  string `json:"phase"`  // idle | upstreams | requests-in-flight | mid-shutdown
	Signal string `json:"signal"` // term | kill
	// Rebalance: upstream rebalancing enabled on every node (threshold 1.5, shed
	// rate 0.5, min-conns 1)
	Rebalance bool `json:"rebalance,omitempty"`
	// Auth: the upstream port requires a token; listeners authenticate with one
	// that expires in 24 h (so the server arms its expiry deadline for them)
	Auth bool `json:"upstream_auth,omitempty"`
}

func (c c18case) String() string {
	s := fmt.Sprintf("%d nodes, victim n%d, phase %s, %s", c.Nodes, c.Victim, c.Phase, c.Signal)
	if c.Rebalance {
		s += ", rebalancing enabled"
	}
	if c.Auth {
		s += ", upstream port authenticated (listeners hold tokens that expire in 24 h)"
	}
	return s
}

func runC18Case(bin, dir string, c c18case, sh *core.Shard) (sig, what, inconclusive string) {
	grace := 5 * time.Second
	var ps []*proc
	defer func() {
		for _, p := range ps {
			if p.alive() {
				_ = p.cmd.Process.Kill()
				<-p.exited
			}
		}
	}()
	for i := 0; i < c.Nodes; i++ {
		var join []string
		if i > 0 {
			join = []string{ps[0].gossip}
		}
		var extra []string
		if c.Rebalance {
			extra = []string{"--upstream.rebalance.threshold", "1.5", "--upstream.rebalance.shed-rate", "0.5", "--upstream.rebalance.min-conns", "1"}
		}
		if c.Auth {
			extra = append(extra, "--upstream.auth.hmac-secret-key", c18Secret)
		}
		p, err := startProc(bin, dir, fmt.Sprintf("n%d", i), join, grace, extra...)
		if err != nil {
			return "", "", err.Error()
		}
		ps = append(ps, p)
	}
	var backs []string
	for _, p := range ps {
		backs = append(backs, p.upstream)
	}
	balancer, err := newLB(backs)
	if err != nil {
		return "", "", err.Error()
	}
	defer balancer.ln.Close()
	victim := ps[c.Victim]
	var survivors []*proc
	for i, p := range ps {
		if i != c.Victim {
			survivors = append(survivors, p)
		}
	}
	// listeners: two endpoints on the victim (unless idle), one on a survivor
	var ls, onVictim []*listener
	defer func() {
		for _, l := range ls {
			l.close()
		}
	}()
	add := func(node int, ep string, agentStyle bool) error {
		balancer.setPrefer(node)
		var tok []string
		if c.Auth {
			tok = []string{nodes.HSToken([]byte(c18Secret), nil, 24*time.Hour)}
		}
		l, err := listenVia(balancer.ln.Addr().String(), ep, agentStyle, tok...)
		if err != nil {
			return err
		}
		ls = append(ls, l)
		if node == c.Victim {
			onVictim = append(onVictim, l)
		}
		return nil
	}
	if c.Phase != "idle" {
		if err := add(c.Victim, "va", true); err != nil {
			return "", "", "listen: " + err.Error()
		}
		if err := add(c.Victim, "vb", false); err != nil {
			return "", "", "listen: " + err.Error()
		}
		if err := add(c.Victim, "shared", true); err != nil {
			return "", "", "listen: " + err.Error()
		}
	}
	other := (c.Victim + 1) % c.Nodes
	if err := add(other, "sa", false); err != nil {
		return "", "", "listen: " + err.Error()
	}
	if err := add(other, "shared", false); err != nil {
		return "", "", "listen: " + err.Error()
	}
	balancer.setPrefer(-1)
	eps := []string{"sa", "shared"}
	if c.Phase != "idle" {
		eps = append(eps, "va", "vb")
	}
	settled := func(group []*proc) (bool, string) {
		for _, p := range group {
			for _, o := range group {
				if p == o {
					continue
				}
				truth, err := o.local()
				if err != nil {
					return false, err.Error()
				}
				v, err := p.viewOf(o.id)
				if err != nil {
					return false, err.Error()
				}
				if v.Status != "active" {
					return false, fmt.Sprintf("%s sees %s as %q", p.id, o.id, v.Status)
				}
				if fmt.Sprint(v.Endpoints) != fmt.Sprint(truth.Endpoints) {
					return false, fmt.Sprintf("%s sees %s with %v, it has %v", p.id, o.id, v.Endpoints, truth.Endpoints)
				}
			}
		}
		return true, ""
	}
	var why string
	if !core.WaitUntil(60*time.Second, 50*time.Millisecond, func() bool {
		if c.Phase != "idle" {
			v, err := victim.local()
			if err != nil || v.Endpoints["va"] != 1 || v.Endpoints["vb"] != 1 {
				why = fmt.Sprintf("victim registers %v", v.Endpoints)
				return false
			}
		}
		ok, w := settled(ps)
		why = w
		return ok
	}) {
		return "", "", "cluster did not settle before the fault: " + why
	}
	probe := func(p *proc, ep string) int {
		r, err := nodes.Get(p.proxy, ep+".piko.test", "/c18", nil, 15*time.Second)
		if err != nil {
			return 0
		}
		return r.Status
	}
	for _, p := range ps {
		for _, ep := range eps {
			if st := probe(p, ep); st != 200 {
				return "", "", fmt.Sprintf("before the fault a request for %q through %s answered %d", ep, p.id, st)
			}
		}
	}
	// steady traffic on every node
	stopTraffic := make(chan struct{})
	var tw sync.WaitGroup
	var reqs atomic.Int64
	for _, p := range ps {
		p := p
		tw.Add(1)
		go func() {
			defer tw.Done()
			r := rand.New(rand.NewSource(int64(len(p.id)) + time.Now().UnixNano()))
			for {
				select {
				case <-stopTraffic:
					return
				default:
				}
				if p.alive() {
					probe(p, eps[r.Intn(len(eps))])
					reqs.Add(1)
				}
				time.Sleep(5 * time.Millisecond)
			}
		}()
	}
	defer func() { sh.Count("requests_during_fault_cases", reqs.Load()) }()
	stopOnce := func() { close(stopTraffic); tw.Wait() }
	drainProbe := false
	if c.Phase == "requests-in-flight" {
		for _, l := range onVictim {
			l.slow.Store(int64(grace / 4))
		}
		for k := 0; k < 6; k++ {
			go probe(ps[k%len(ps)], []string{"va", "vb"}[k%2])
		}
		if c.Signal == "term" {
			// two long requests enter at the victim's proxy and are served by a
			// survivor's upstream: they keep the victim's proxy draining for 4 s (< grace)
			for _, l := range ls {
				if l.ep == "sa" {
					l.slow.Store(int64(4 * time.Second))
				}
			}
			go probe(victim, "sa")
			go probe(victim, "sa")
			drainProbe = true
		}
		time.Sleep(300 * time.Millisecond)
		for _, l := range ls {
			if l.ep == "sa" {
				l.slow.Store(0) // the handlers already in flight keep sleeping
			}
		}
	}
	// ---- the fault
	t0 := time.Now()
	graceful := c.Signal == "term"
	switch {
	case c.Phase == "mid-shutdown":
		_ = victim.cmd.Process.Signal(syscall.SIGTERM)
		time.Sleep(150 * time.Millisecond)
		if c.Signal == "kill" {
			_ = victim.cmd.Process.Kill()
		} else {
			_ = victim.cmd.Process.Signal(syscall.SIGTERM) // a second, redundant request
		}
	case graceful:
		_ = victim.cmd.Process.Signal(syscall.SIGTERM)
	default:
		_ = victim.cmd.Process.Kill()
	}
	if drainProbe {
		// "stops advertising its upstreams" comes first: two seconds into a shutdown
		// that is still draining requests (about 100x the time the upstream server
		// needs to drop its connections) the victim must hold no upstream any more
		select {
		case <-victim.exited:
		case <-time.After(2 * time.Second):
			if v, err := victim.local(); err == nil && victim.alive() {
				sh.Count("mid_drain_observations", 1)
				if len(v.Endpoints) > 0 {
					stopOnce()
					return "still-advertising-while-draining", fmt.Sprintf("%s: two seconds after SIGTERM, while requests through its proxy are still draining, the node still holds and advertises upstreams %v: listeners cannot move to a survivor and other nodes keep routing to it", c, v.Endpoints), ""
				}
			}
		}
	}
	select {
	case <-victim.exited:
	case <-time.After(grace + 10*time.Second):
		stopOnce()
		if graceful {
			return "shutdown-exceeds-grace-period", fmt.Sprintf("%s: the node had not exited %s after SIGTERM (grace period %s)", c, time.Since(t0).Round(time.Millisecond), grace), ""
		}
		return "", "", "killed process did not exit"
	}
	exitAfter := victim.exitAt.Sub(t0)
	if graceful {
		killedByOurSecondSignal := false
		if c.Phase == "mid-shutdown" && victim.exitErr != nil {
			// piko keeps SIGTERM handled until its shutdown has completed; the second,
			// redundant SIGTERM can therefore only take effect in the short window
			// between the end of the shutdown and the exit of the process (longer in
			// the race-built binary). Everything else is still judged below.
			if ee, ok := victim.exitErr.(*exec.ExitError); ok {
				if ws, ok := ee.Sys().(syscall.WaitStatus); ok && ws.Signaled() && ws.Signal() == syscall.SIGTERM {
					killedByOurSecondSignal = true
					sh.Count("exits_by_the_redundant_second_sigterm", 1)
				}
			}
		}
		if victim.exitErr != nil && !killedByOurSecondSignal {
			stopOnce()
			return "shutdown-failed", fmt.Sprintf("%s: the node exited with %v after %s (log %s)", c, victim.exitErr, exitAfter.Round(time.Millisecond), victim.log), ""
		}
		sh.Count("graceful_exits", 1)
		// at the instant it has exited every survivor shows it left or absent when all
		// of them were notified directly (Leave pushes to up to four peers); with more
		// survivors the rest must follow through gossip within 3 s (60 gossip intervals)
		allowance := time.Duration(0)
		if len(survivors) > 4 {
			allowance = 3 * time.Second
		}
		var lagging string
		okAll := core.WaitUntil(allowance, 20*time.Millisecond, func() bool {
			lagging = ""
			for _, s := range survivors {
				v, err := s.viewOf(victim.id)
				if err != nil {
					lagging = "admin api: " + err.Error()
					return false
				}
				if v.Status != "left" && v.Status != "" {
					lagging = fmt.Sprintf("%s still lists it as %q with %v", s.id, v.Status, v.Endpoints)
					return false
				}
			}
			return true
		})
		if !okAll && !strings.HasPrefix(lagging, "admin api") {
			// A survivor that shows the node as UNREACHABLE (never as active) had
			// suspected it before it exited - on a starved machine the detector does
			// that to a healthy node - so the victim and this survivor may not have
			// considered each other live when the departure was pushed. Such a
			// survivor is not routing to the node either; it must "follow through
			// gossip": within 30 s it shows the node as left (or has forgotten it).
			onlyUnreachable := true
			for _, s := range survivors {
				if v, err := s.viewOf(victim.id); err != nil || (v.Status != "left" && v.Status != "" && v.Status != "unreachable") {
					onlyUnreachable = false
				}
			}
			if onlyUnreachable {
				sh.Count("departures_with_a_suspecting_survivor", 1)
				okAll = core.WaitUntil(30*time.Second, 50*time.Millisecond, func() bool {
					for _, s := range survivors {
						v, err := s.viewOf(victim.id)
						if err != nil || (v.Status != "left" && v.Status != "") {
							if err == nil {
								lagging = fmt.Sprintf("%s still lists it as %q with %v 30 s after the exit (it had suspected the node before the exit)", s.id, v.Status, v.Endpoints)
							}
							return false
						}
					}
					return true
				})
			}
		}
		if !okAll {
			stopOnce()
			if strings.HasPrefix(lagging, "admin api") {
				return "", "", lagging
			}
			return "departure-not-announced", fmt.Sprintf("%s: the node has exited gracefully but %s after its exit %s", c, allowance, lagging), ""
		}
		sh.Count("departure_seen_by_all_at_exit", 1)
	} else {
		// crash: every survivor flags it unreachable (or forgets it) first
		if !core.WaitUntil(60*time.Second, 50*time.Millisecond, func() bool {
			for _, s := range survivors {
				v, err := s.viewOf(victim.id)
				if err != nil || (v.Status != "unreachable" && v.Status != "" && v.Status != "left") {
					why = fmt.Sprintf("%s sees it as %q", s.id, v.Status)
					return false
				}
			}
			return true
		}) {
			stopOnce()
			return "", "", "survivors did not flag the killed node within 60 s: " + why
		}
		sh.Count("crash_flagged_unreachable_by_all", 1)
	}
	base := map[string]float64{}
	for _, s := range survivors {
		base[s.id] = s.remoteRequestsTo(victim.id)
	}
	// ---- recovery: listeners re-attach to survivors, routing settles, requests succeed
	for _, l := range onVictim {
		l.slow.Store(0)
	}
	gaveUp := func() string {
		for _, l := range ls {
			if e := l.serveErr.Load(); e != nil {
				return fmt.Sprintf("the listener for %q stopped serving: %v (nobody closed it)", l.ep, e)
			}
		}
		return ""
	}
	ok := core.WaitUntil(60*time.Second, 50*time.Millisecond, func() bool {
		if gaveUp() != "" {
			return true
		}
		total := map[string]int{}
		for _, s := range survivors {
			v, err := s.local()
			if err != nil {
				why = err.Error()
				return false
			}
			for e, n := range v.Endpoints {
				total[e] += n
			}
		}
		for _, l := range ls {
			if total[l.ep] == 0 {
				why = fmt.Sprintf("no survivor registers an upstream for %q (survivors register %v)", l.ep, total)
				return false
			}
		}
		want := map[string]int{}
		for _, l := range ls {
			want[l.ep]++
		}
		for e, n := range want {
			if total[e] != n {
				why = fmt.Sprintf("survivors register %v, the harness holds %v", total, want)
				return false
			}
		}
		s, w := settled(survivors)
		why = w
		return s
	})
	stopOnce()
	if g := gaveUp(); g != "" {
		return "listener-gave-up", fmt.Sprintf("%s: %s", c, g), ""
	}
	if !ok {
		return "", "", "survivors did not settle within 60 s after the fault: " + why
	}
	for _, s := range survivors {
		for _, ep := range eps {
			st := probe(s, ep)
			for try := 0; st != 200 && try < 3; try++ {
				// an unexpected answer is believed only if routing was settled before and
				// after it: a survivor that is suspected for a moment on a loaded machine
				// is legitimately skipped by routing
				if !core.WaitUntil(60*time.Second, 50*time.Millisecond, func() bool { ok2, _ := settled(survivors); return ok2 }) {
					return "", "", "survivors did not settle again while probing"
				}
				sh.Count("probe_retries_after_unsettled_routing", 1)
				st = probe(s, ep)
			}
			if st != 200 {
				return "no-recovery", fmt.Sprintf("%s: listeners are re-attached and routing has settled, but a request for %q through %s answers %d", c, ep, s.id, st), ""
			}
			sh.Count("recovered_probes", 1)
		}
	}
	for _, s := range survivors {
		if after := s.remoteRequestsTo(victim.id); after > base[s.id] && base[s.id] >= 0 {
			return "routed-to-departed-node", fmt.Sprintf("%s: %s forwarded %v more requests to the departed node after it was known to be gone", c, s.id, after-base[s.id]), ""
		}
	}
	if len(onVictim) > 0 {
		sh.Count("listeners_reattached", int64(len(onVictim)))
	}
	if c.Rebalance && len(survivors) == 1 {
		// a lone survivor has nobody to balance with: for the next 4 s (four
		// rebalance periods) every re-attached upstream stays registered
		want := len(ls)
		t0 := time.Now()
		for time.Since(t0) < 4*time.Second {
			v, err := survivors[0].local()
			if err != nil {
				return "", "", "admin api: " + err.Error()
			}
			total := 0
			for _, n := range v.Endpoints {
				total += n
			}
			if total < want {
				return "upstream-shed-by-lone-survivor", fmt.Sprintf("%s: the only surviving node registers %d of the %d re-attached upstreams %s after recovery (%v): it keeps closing their sessions although no other node is active", c, total, want, time.Since(t0).Round(10*time.Millisecond), v.Endpoints), ""
			}
			time.Sleep(25 * time.Millisecond)
		}
		sh.Count("lone_survivor_stability_windows", 1)
	}
	return "", "", ""
}

// runC18Outage: one node behind the balancer; the balancer refuses every
// connection until the listener has made `want` attempts, then works again.
// Judged on the recorded attempt times: consecutive attempts are never further
// apart than the configured maximum backoff (500 ms, +10% jitter) plus a 3 s
// allowance for a starved machine; the listener never gives up; once the
// balancer works again the endpoint is registered and served again.
func runC18Outage(bin, dir string, agentStyle bool, sh *core.Shard) (sig, what, inconclusive string) {
	p, err := startProc(bin, dir, "n0", nil, 5*time.Second)
	if err != nil {
		return "", "", err.Error()
	}
	defer func() {
		if p.alive() {
			_ = p.cmd.Process.Kill()
			<-p.exited
		}
	}()
	balancer, err := newLB([]string{p.upstream})
	if err != nil {
		return "", "", err.Error()
	}
	defer balancer.ln.Close()
	l, err := listenVia(balancer.ln.Addr().String(), "out", agentStyle)
	if err != nil {
		return "", "", "listen: " + err.Error()
	}
	defer l.close()
	registered := func() bool { v, err := p.local(); return err == nil && v.Endpoints["out"] == 1 }
	if !core.WaitUntil(30*time.Second, 20*time.Millisecond, registered) {
		return "", "", "the listener did not register"
	}
	const want = 10
	balancer.setDown(true)
	ok := core.WaitUntil(90*time.Second, 20*time.Millisecond, func() bool {
		return len(balancer.attemptTimes()) >= want || l.serveErr.Load() != nil
	})
	at := balancer.attemptTimes()
	balancer.setDown(false)
	desc := fmt.Sprintf("outage scenario (agent-style listener=%v, min/max reconnect backoff 50ms/500ms)", agentStyle)
	if e := l.serveErr.Load(); e != nil {
		return "listener-gave-up", fmt.Sprintf("%s: the listener stopped serving after %d refused attempts: %v (nobody closed it)", desc, len(at), e), ""
	}
	var gaps []time.Duration
	for i := 1; i < len(at); i++ {
		gaps = append(gaps, at[i].Sub(at[i-1]).Round(time.Millisecond))
	}
	limit := 550*time.Millisecond + 3*time.Second
	for i, g := range gaps {
		if g > limit {
			return "backoff-exceeds-maximum", fmt.Sprintf("%s: attempts %d and %d were %s apart, more than the maximum backoff (500ms + 10%% jitter) plus a 3 s allowance; gaps between attempts: %v", desc, i+1, i+2, g, gaps), ""
		}
	}
	if !ok {
		return "", "", fmt.Sprintf("only %d reconnect attempts within 90 s (gaps %v)", len(at), gaps)
	}
	sh.Count("outage_reconnect_attempts", int64(len(at)))
	if !core.WaitUntil(60*time.Second, 20*time.Millisecond, func() bool { return registered() || l.serveErr.Load() != nil }) {
		return "no-reattach-after-outage", fmt.Sprintf("%s: the balancer works again but the endpoint is not registered after 60 s (attempt gaps during the outage: %v)", desc, gaps), ""
	}
	if e := l.serveErr.Load(); e != nil {
		return "listener-gave-up", fmt.Sprintf("%s: the listener stopped serving: %v", desc, e), ""
	}
	for try := 0; ; try++ {
		r, err := nodes.Get(p.proxy, "out.piko.test", "/after-outage", nil, 10*time.Second)
		if err == nil && r.Status == 200 {
			break
		}
		if try == 3 {
			st := 0
			if r != nil {
				st = r.Status
			}
			return "no-recovery", fmt.Sprintf("%s: the endpoint is registered again but a request answers %d (%v)", desc, st, err), ""
		}
		time.Sleep(200 * time.Millisecond)
	}
	sh.Count("outage_recoveries", 1)
	return "", "", ""
}

func runC18(sh *core.Shard, a props.Args) {
	bin := filepath.Join(os.Getenv("VERIF_BUILD"), "piko")
	if a.Thorough() {
		if _, err := os.Stat(filepath.Join(os.Getenv("VERIF_BUILD"), "piko-race")); err == nil {
			bin = filepath.Join(os.Getenv("VERIF_BUILD"), "piko-race")
		}
	}
	if _, err := os.Stat(bin); err != nil {
		fmt.Println("VERIF-HARNESS-ERROR piko binary missing: " + bin)
		os.Exit(3)
	}
	var cases []c18case
	sizes := []int{3}
	if a.Thorough() {
		sizes = []int{3, 4, 5, 6}
	}
	for _, n := range sizes {
		for v := 0; v < n; v++ {
			for _, ph := range []string{"idle", "upstreams", "requests-in-flight", "mid-shutdown"} {
				for _, sg := range []string{"term", "kill"} {
					cases = append(cases, c18case{Nodes: n, Victim: v, Phase: ph, Signal: sg})
				}
			}
		}
	}
	// rebalancing enabled: 2-node clusters, either node lost with upstreams connected
	for v := 0; v < 2; v++ {
		for _, sg := range []string{"term", "kill"} {
			cases = append(cases, c18case{Nodes: 2, Victim: v, Phase: "upstreams", Signal: sg, Rebalance: true})
		}
	}
	// authenticated upstream port: a middle node lost with upstreams connected
	cases = append(cases,
		c18case{Nodes: 3, Victim: 1, Phase: "requests-in-flight", Signal: "term", Auth: true}, // includes the mid-drain observation
		c18case{Nodes: 3, Victim: 1, Phase: "upstreams", Signal: "kill", Auth: true})
	// balancer outage scenarios (reconnect backoff), one per listener style
	for k, agentStyle := range []bool{true, false} {
		if !a.Mine(len(cases) + k) {
			continue
		}
		dir, err := os.MkdirTemp("", "c18o")
		if err != nil {
			sh.Inconcl("tempdir: %v", err)
			continue
		}
		fmt.Printf("CASE C18 outage agentStyle=%v (logs %s)\n", agentStyle, dir)
		sig, what, inc := runC18Outage(bin, dir, agentStyle, sh)
		if inc != "" {
			sig, what, inc = runC18Outage(bin, dir, agentStyle, sh)
		}
		sh.Eval()
		if inc != "" {
			sh.Inconcl("outage scenario: %s", inc)
		} else if sig != "" {
			sh.Violate(sig, what, map[string]any{"scenario": "outage", "agent_style": agentStyle})
		} else {
			os.RemoveAll(dir)
		}
	}
	complete := true
	for i, c := range cases {
		if !a.Mine(i) {
			continue
		}
		dir, err := os.MkdirTemp("", "c18")
		if err != nil {
			sh.Inconcl("tempdir: %v", err)
			continue
		}
		fmt.Printf("CASE C18 %d %s (logs %s)\n", i, c, dir)
		sig, what, inc := runC18Case(bin, dir, c, sh)
		if inc != "" {
			// undecided (slowness on a loaded machine): run the case once more
			fmt.Printf("RETRY C18 %d after inconclusive: %s\n", i, inc)
			sh.Count("cases_retried_after_inconclusive", 1)
			sig, what, inc = runC18Case(bin, dir, c, sh)
		}
		sh.Eval()
		// race reports of the server processes (thorough tier)
		if m, _ := filepath.Glob(filepath.Join(dir, "race-*")); len(m) > 0 {
			b, _ := os.ReadFile(m[0])
			sh.Violate("data-race", fmt.Sprintf("%s: the race-built server reported a data race:\n%s", c, clip(string(b), 1500)), c)
		}
		if inc != "" {
			sh.Inconcl("%s: %s", c, inc)
			complete = false
			continue
		}
		if sig != "" {
			sh.Violate(sig, what, c)
		} else {
			os.RemoveAll(dir)
		}
		if i < 2 {
			sh.Sample(c)
		}
		sh.Nontrivial(core.Hash(c))
	}
	sh.Exhaustive["victim_x_phase_x_signal"] = complete
}

func clip(s string, n int) string {
	if len(s) > n {
		return s[:n]
	}
	return s
}

func init() {
	props.Register(&props.Prop{
		ID: "C18", Level: "fault_enumeration", Parallel: 6, ExhaustiveWhenAll: true,
		Rule: "clusters of 3 (thorough 3-5) real `piko server` processes started from the freshly built binary (thorough: race-built) with a 5 s grace period and 50 ms gossip interval; upstream listeners (client.Upstream, created agent-style with a cancelled connect context and with a live one) connect through a harness TCP load balancer so that a reconnect can land on a survivor; two endpoints live only on the victim, one only on a survivor, one on both; steady request traffic on every node. Enumerated completely: victim = every node x phase in {idle, upstreams connected, requests in flight (each grace/4 long), mid-shutdown (SIGTERM then SIGKILL / second SIGTERM)} x {SIGTERM, SIGKILL}. Oracle. Graceful: two seconds into a shutdown whose proxy is still draining 4 s requests the victim already holds no upstream (it stops advertising first); the process exits with status 0 within grace+10 s, and at the instant it has exited every survivor lists it as left or not at all; crash: every survivor flags it unreachable (60 s watchdog => inconclusive). Both: every listener keeps serving (a Serve/Accept that returned although nobody closed the listener is a violation), every endpoint is registered again on survivors exactly as often as the harness holds listeners, and once the survivors' tables mirror each other's own state every endpoint answers 200 through every surviving node; no survivor's remote_requests_total{node_id=victim} grows after the departure was known. Distinct = one per (size, victim, phase, signal). Four more cases run 2-node clusters with upstream rebalancing enabled (either node lost, term and kill, upstreams connected): after recovery the lone survivor keeps every re-attached upstream registered for four rebalance periods. Two outage scenarios (one node behind the balancer, agent-style and plain listener): the balancer cuts the session and refuses every connection until 10 attempts were made; consecutive attempts are never further apart than the maximum reconnect backoff (500 ms + 10% jitter) plus a 3 s allowance, the listener never gives up, and the endpoint is registered and served again once the balancer works. Two cases repeat victim n1 (requests in flight / term, with the mid-drain observation; upstreams connected / kill) with an authenticated upstream port and listeners holding tokens that expire in 24 h.",
		Assumptions: []string{
			"settling is decided from the admin API of the survivors; pure slowness beyond the 60 s watchdog is inconclusive, never a violation",
			"'mid-shutdown' is approximated by a second signal 150 ms after SIGTERM",
		},
		RequireCounters: []string{"graceful_exits", "departure_seen_by_all_at_exit", "crash_flagged_unreachable_by_all", "listeners_reattached", "recovered_probes", "mid_drain_observations", "lone_survivor_stability_windows", "outage_reconnect_attempts", "outage_recoveries"},
		Shards:          func(string) int { return 12 },
		Timeout: func(tier string) time.Duration {
			if tier == "thorough" {
				return 90 * time.Minute
			}
			return 15 * time.Minute
		},
		Run: runC18,
	})
}
