package comp

import (
	"context"
	"fmt"
	"math"
	"math/big"
	"math/rand"
	"net"
	"strconv"
	"sync"
	"sync/atomic"
	"time"

	"github.com/andydunstall/yamux"

	"github.com/andydunstall/piko/pkg/log"
	pikowebsocket "github.com/andydunstall/piko/pkg/websocket"
	"github.com/andydunstall/piko/server/cluster"
	"github.com/andydunstall/piko/server/config"
	"github.com/andydunstall/piko/server/upstream"

	"verif/harness/core"
	"verif/harness/nodes"
	"verif/harness/props"
)

// ---- C19: rebalancing ----------------------------------------------------------------------
//
// The real upstream.Server with real sessions (WebSocket + yamux clients over
// loopback) and an injected cluster view. One Rebalance() call per case; the
// number of sessions it closed is read from the server (registered sessions
// that are closed or gone) and cross-checked against the clients that saw
// their session end.

type c19rig struct {
	cs   *cluster.State
	mgr  *upstream.LoadBalancedManager
	srv  *upstream.Server
	ln   net.Listener
	url  string
	mu   sync.Mutex
	cl   []*c19client
	ends atomic.Int64
}

type c19client struct {
	sess   *yamux.Session
	closed atomic.Bool
}

func newC19Rig() *c19rig {
	cs := cluster.NewState(&cluster.Node{ID: "local", ProxyAddr: "127.0.0.1:1", AdminAddr: "127.0.0.1:2"}, log.NewNopLogger())
	mgr := upstream.NewLoadBalancedManager(cs, nil)
	conf := config.Default()
	srv := upstream.NewServer(mgr, nil, nil, cs, conf.Upstream, log.NewNopLogger())
	ln, err := net.Listen("tcp", "127.0.0.1:0")
	if err != nil {
		panic("VERIF-HARNESS-ERROR listen: " + err.Error())
	}
	go func() { _ = srv.Serve(ln) }()
	return &c19rig{cs: cs, mgr: mgr, srv: srv, ln: ln, url: "ws://" + ln.Addr().String() + "/piko/v1/upstream/"}
}

func (r *c19rig) close() {
	ctx, cancel := context.WithTimeout(context.Background(), 5*time.Second)
	defer cancel()
	_ = r.srv.Shutdown(ctx)
	r.mu.Lock()
	for _, c := range r.cl {
		c.sess.Close()
	}
	r.mu.Unlock()
}

func (r *c19rig) open() int {
	n := 0
	r.mu.Lock()
	for _, c := range r.cl {
		if !c.closed.Load() {
			n++
		}
	}
	r.mu.Unlock()
	return n
}

// ensure brings the number of open sessions to n.
func (r *c19rig) ensure(n int, rnd *rand.Rand) error {
	// drop closed clients
	r.mu.Lock()
	live := r.cl[:0]
	for _, c := range r.cl {
		if !c.closed.Load() {
			live = append(live, c)
		}
	}
	// close the surplus (client-side disconnect)
	var closing []*c19client
	for len(live) > n {
		c := live[len(live)-1]
		live = live[:len(live)-1]
		c.sess.Close()
		closing = append(closing, c)
	}
	r.cl = live
	have := len(live)
	r.mu.Unlock()
	// their accept loops must have noticed (and counted) the end before the next
	// case reads the counter of ended sessions
	core.WaitUntil(20*time.Second, time.Millisecond, func() bool {
		for _, c := range closing {
			if !c.closed.Load() {
				return false
			}
		}
		return true
	})
	for ; have < n; have++ {
		ep := fmt.Sprintf("ep%d", rnd.Intn(4))
		ctx, cancel := context.WithTimeout(context.Background(), 10*time.Second)
		conn, err := pikowebsocket.Dial(ctx, r.url+ep)
		cancel()
		if err != nil {
			return err
		}
		mc := yamux.DefaultConfig()
		mc.LogOutput = discard{}
		sess, err := yamux.Client(conn, mc)
		if err != nil {
			return err
		}
		c := &c19client{sess: sess}
		go func() {
			for {
				if _, err := sess.Accept(); err != nil {
					c.closed.Store(true)
					r.ends.Add(1)
					return
				}
			}
		}()
		r.mu.Lock()
		r.cl = append(r.cl, c)
		r.mu.Unlock()
	}
	// wait until the server has registered them all
	if !core.WaitUntil(20*time.Second, time.Millisecond, func() bool {
		reg, closed := r.srv.VerifSessionCounts()
		// quiescent: no closed session is still waiting to be deregistered (the
		// server counts registered sessions, so a transient would blur the case)
		return reg == n && closed == 0 && sum(r.mgr.Endpoints()) == n && sum(r.cs.LocalNode().Endpoints) == n
	}) {
		reg, closed := r.srv.VerifSessionCounts()
		return fmt.Errorf("server registered %d (closed %d) sessions, expected %d", reg, closed, n)
	}
	return nil
}

type discard struct{}

func (discard) Write(p []byte) (int, error) { return len(p), nil }

func sum(m map[string]int) int {
	t := 0
	for _, v := range m {
		t += v
	}
	return t
}

type c19view struct {
	Name  string         `json:"name"`
	Nodes []c19node      `json:"nodes"`
}

type c19node struct {
	Status cluster.NodeStatus `json:"status"`
	Conns  []int              `json:"conns"` // per endpoint
}

func (r *c19rig) setView(v c19view) {
	for _, n := range r.cs.Nodes() {
		if n.ID != "local" {
			r.cs.RemoveNode(n.ID)
		}
	}
	for i, n := range v.Nodes {
		eps := map[string]int{}
		for k, c := range n.Conns {
			if c > 0 {
				eps[fmt.Sprintf("ep%d", k)] = c
			}
		}
		r.cs.AddNode(&cluster.Node{ID: fmt.Sprintf("r%d", i), Status: n.Status, ProxyAddr: "p", AdminAddr: "a", Endpoints: eps})
	}
}

type c19case struct {
	Threshold float64 `json:"threshold"`
	ShedRate  float64 `json:"shed_rate"`
	MinConns  uint    `json:"min_conns"`
	Local     int     `json:"local"`
	View      c19view `json:"view"`
}

// c19expect computes the reference bounds with exact arithmetic.
// permitted: 0 = must not shed, 1 = may shed, 2 = borderline (either).
func c19expect(c c19case) (permitted int, maxShed int, avg int, activeNodes int) {
	total := c.Local
	activeNodes = 1
	known := 1
	for _, n := range c.View.Nodes {
		known++
		if n.Status != cluster.NodeStatusActive {
			continue
		}
		activeNodes++
		for _, k := range n.Conns {
			total += k
		}
	}
	avg = total / activeNodes
	min := int(c.MinConns)
	if min < 1 {
		min = 1
	}
	if known <= 1 || c.Local < min || c.Local <= avg {
		return 0, 0, avg, activeNodes
	}
	// local > avg
	permitted = 1
	if avg > 0 {
		bal := new(big.Rat).SetFrac64(int64(c.Local-avg), int64(avg))
		th := decimalRat(c.Threshold)
		diff := new(big.Rat).Sub(bal, th)
		f, _ := diff.Float64()
		switch {
		case math.Abs(f) < 1e-9:
			permitted = 2
		case f < 0:
			return 0, 0, avg, activeNodes
		}
	}
	// cap: ceil(avg * rate), at least one, never more than open
	capR := new(big.Rat).Mul(new(big.Rat).SetInt64(int64(avg)), decimalRat(c.ShedRate))
	num, den := capR.Num(), capR.Denom()
	q, m := new(big.Int).DivMod(num, den, new(big.Int))
	maxShed = int(q.Int64())
	if m.Sign() != 0 {
		maxShed++
	}
	if maxShed < 1 {
		maxShed = 1
	}
	if maxShed > c.Local {
		maxShed = c.Local
	}
	return
}

// decimalRat reads a configured decimal (0.1 means one tenth, not the nearest
// binary fraction).
func decimalRat(x float64) *big.Rat {
	r, ok := new(big.Rat).SetString(strconv.FormatFloat(x, 'g', -1, 64))
	if !ok {
		panic("VERIF-HARNESS-ERROR bad decimal")
	}
	return r
}

func c19views(r *rand.Rand, local int) []c19view {
	act, unr, left := cluster.NodeStatusActive, cluster.NodeStatusUnreachable, cluster.NodeStatusLeft
	vs := []c19view{
		{Name: "alone"},
		{Name: "one-idle-peer", Nodes: []c19node{{act, []int{0}}}},
		{Name: "one-equal-peer", Nodes: []c19node{{act, []int{local}}}},
		{Name: "one-busier-peer", Nodes: []c19node{{act, []int{local + 7, 3}}}},
		{Name: "two-light-peers", Nodes: []c19node{{act, []int{local / 3}}, {act, []int{local / 4, 1}}}},
		{Name: "balanced-plus-unreachable", Nodes: []c19node{{act, []int{local}}, {unr, []int{0}}}},
		{Name: "balanced-plus-left-and-unreachable", Nodes: []c19node{{act, []int{local}}, {unr, []int{2 * local}}, {left, []int{0}}}},
		{Name: "only-unreachable-peers", Nodes: []c19node{{unr, []int{0}}, {left, []int{0}}}},
		{Name: "idle-unreachable-busy-active", Nodes: []c19node{{unr, []int{0}}, {act, []int{local * 2}}}},
	}
	// seeded views
	for k := 0; k < 3; k++ {
		var v c19view
		v.Name = fmt.Sprintf("random-%d", k)
		for n := 0; n < 1+r.Intn(5); n++ {
			st := []cluster.NodeStatus{act, act, act, unr, left}[r.Intn(5)]
			var conns []int
			for e := 0; e < 1+r.Intn(3); e++ {
				conns = append(conns, r.Intn(2*local+3))
			}
			v.Nodes = append(v.Nodes, c19node{st, conns})
		}
		vs = append(vs, v)
	}
	return vs
}

// runC19Case runs one case; the client-side cross-check (as many clients see
// their session end as the server closed) is believed only if it fails again on
// a second run of the same case: a single stray session end (a yamux keep-alive
// lost on an overloaded machine, a straggler of the previous case) does not
// recur, a server that closes sessions it does not account for does.
func runC19Case(rg *c19rig, c c19case, rnd *rand.Rand, sh *core.Shard) (sig, what string, inconclusive bool) {
	sig, what, inconclusive = runC19CaseOnce(rg, c, rnd, sh)
	for try := 0; sig == "shed-count-mismatch" && try < 2; try++ {
		sh.Count("cross_check_reruns", 1)
		first := what
		sig, what, inconclusive = runC19CaseOnce(rg, c, rnd, sh)
		if sig == "shed-count-mismatch" {
			what += " (again on a second run; first: " + first + ")"
			break
		}
	}
	return
}

func runC19CaseOnce(rg *c19rig, c c19case, rnd *rand.Rand, sh *core.Shard) (sig, what string, inconclusive bool) {
	if err := rg.ensure(c.Local, rnd); err != nil {
		return "", "could not establish sessions: " + err.Error(), true
	}
	rg.setView(c.View)
	rg.srv.VerifSetRebalance(c.Threshold, c.ShedRate, c.MinConns)
	endsBefore := rg.ends.Load()
	regBefore, closedBefore := rg.srv.VerifSessionCounts()
	if regBefore-closedBefore != c.Local {
		return "", fmt.Sprintf("harness: %d open sessions, wanted %d", regBefore-closedBefore, c.Local), true
	}
	rg.srv.Rebalance()
	regAfter, closedAfter := rg.srv.VerifSessionCounts()
	shed := (regBefore - closedBefore) - (regAfter - closedAfter)
	permitted, maxShed, avg, active := c19expect(c)
	desc := fmt.Sprintf("threshold=%v shed_rate=%v min_conns=%d local=%d view=%s (avg over %d active nodes = %d)", c.Threshold, c.ShedRate, c.MinConns, c.Local, c.View.Name, active, avg)
	sh.Count("rebalance_calls", 1)
	switch {
	case shed < 0:
		return "", "harness: negative shed count", true
	case permitted == 0 && shed > 0:
		why := "not imbalanced beyond the threshold"
		if c.Local <= avg {
			why = "the node is at or below the average"
		}
		return "shed-when-not-permitted", fmt.Sprintf("%s: Rebalance closed %d sessions although %s", desc, shed, why), false
	case permitted != 0 && shed > maxShed:
		return "shed-too-many", fmt.Sprintf("%s: Rebalance closed %d sessions, more than max(1, ceil(avg*rate)) = %d", desc, shed, maxShed), false
	}
	if shed > 0 {
		sh.Count("cases_shedding", 1)
		sh.Count("sessions_shed", int64(shed))
		// cross-check with the clients: exactly that many see their session end
		ok := core.WaitUntil(20*time.Second, time.Millisecond, func() bool { return rg.ends.Load()-endsBefore >= int64(shed) })
		time.Sleep(2 * time.Millisecond)
		if got := rg.ends.Load() - endsBefore; !ok || got != int64(shed) {
			return "shed-count-mismatch", fmt.Sprintf("%s: server closed %d sessions but %d clients saw their session end", desc, shed, got), false
		}
		// deregistration follows
		if !core.WaitUntil(20*time.Second, time.Millisecond, func() bool {
			return sum(rg.mgr.Endpoints()) == c.Local-shed && sum(rg.cs.LocalNode().Endpoints) == c.Local-shed
		}) {
			return "shed-not-deregistered", fmt.Sprintf("%s: %d sessions were shed but the registry still counts %d upstreams", desc, shed, sum(rg.mgr.Endpoints())), false
		}
	} else if permitted == 1 {
		sh.Count("permitted_but_none_shed", 1)
	}
	if permitted == 0 {
		sh.Count("cases_not_permitted", 1)
	}
	sh.Nontrivial(core.Hash(c.Threshold, c.ShedRate, c.MinConns, c.Local, fmt.Sprint(c.View), shed))
	return "", "", false
}

// c19EnabledGuard: on a fully assembled node rebalancing only runs when the
// threshold is non-zero. A node with threshold 0 and a grossly imbalanced view
// must close nothing over three rebalance periods; a node with a threshold in
// the same situation is the positive control (it must shed, so the probe is
// known to be able to see shedding).
func c19EnabledGuard(sh *core.Shard) (sig, what string, inconclusive string) {
	run := func(rb config.RebalanceConfig) (closed int, err error) {
		n, err := nodes.StartNode(nodes.NodeOpts{Rebalance: rb, GossipInterval: 100 * time.Millisecond})
		if err != nil {
			return 0, err
		}
		defer n.Stop()
		var ups []*nodes.RawUpstream
		for i := 0; i < 8; i++ {
			u, err := nodes.DialRawUpstream(n, fmt.Sprintf("g%d", i%2))
			if err != nil {
				return 0, err
			}
			ups = append(ups, u)
		}
		defer func() {
			for _, u := range ups {
				u.Close()
			}
		}()
		if !core.WaitUntil(20*time.Second, 5*time.Millisecond, func() bool { return sum(n.Cluster().LocalNode().Endpoints) == 8 }) {
			return 0, fmt.Errorf("upstreams did not register")
		}
		n.Cluster().AddNode(&cluster.Node{ID: "idle-peer", Status: cluster.NodeStatusActive, ProxyAddr: "127.0.0.1:1", AdminAddr: "127.0.0.1:1"})
		time.Sleep(3500 * time.Millisecond) // three rebalance periods of one second
		for _, u := range ups {
			if u.Ended() {
				closed++
			}
		}
		return closed, nil
	}
	off, err := run(config.RebalanceConfig{Threshold: 0, ShedRate: 0.5, MinConns: 1})
	if err != nil {
		return "", "", err.Error()
	}
	on, err := run(config.RebalanceConfig{Threshold: 0.1, ShedRate: 0.5, MinConns: 1})
	if err != nil {
		return "", "", err.Error()
	}
	sh.Count("enabled_guard_probe", 1)
	sh.Count("enabled_guard_control_sessions_shed", int64(on))
	if off > 0 {
		return "shed-while-disabled", fmt.Sprintf("rebalancing is disabled (threshold 0) but a node holding 8 connections next to an idle peer closed %d of them within 3.5 s", off), ""
	}
	if on == 0 {
		return "", "", "positive control: a node with threshold 0.1 in the same situation shed nothing within 3.5 s, so the probe cannot see shedding"
	}
	return "", "", ""
}

func runC19(sh *core.Shard, a props.Args) {
	if a.Shard == a.NShards-1 {
		fmt.Println("CASE C19 enabled guard on a full node")
		sig, what, inc := c19EnabledGuard(sh)
		sh.Eval()
		if inc != "" {
			sh.Inconcl("enabled guard: %s", inc)
		} else if sig != "" {
			sh.Violate(sig, what, map[string]any{"kind": "enabled-guard"})
			return
		}
	}
	thresholds := []float64{0.05, 0.2, 0.5, 1, 3}
	rates := []float64{0, 0.005, 0.1, 0.34, 0.5, 1}
	mins := []uint{0, 1, 5, 20}
	locals := []int{0, 1, 2, 3, 4, 5, 7, 10, 13, 20, 21, 33, 40}
	// the grid is enumerated; case index -> shard
	rg := newC19Rig()
	defer rg.close()
	idx := 0
	rnd := rand.New(rand.NewSource(a.Seed*131 + int64(a.Shard)))
	exhaustive := true
	for _, local := range locals {
		views := c19views(rand.New(rand.NewSource(a.Seed+int64(local))), local)
		for _, v := range views {
			idx++
			if !a.Mine(idx) {
				continue
			}
			fmt.Printf("CASE C19 grid local=%d view=%s\n", local, v.Name)
			for _, th := range thresholds {
				for _, rate := range rates {
					for _, min := range mins {
						c := c19case{th, rate, min, local, v}
						sig, what, inc := runC19Case(rg, c, rnd, sh)
						sh.Eval()
						if inc {
							sh.Inconcl("%s", what)
							exhaustive = false
							continue
						}
						if sig != "" {
							sh.Violate(sig, what, c)
							return
						}
					}
				}
			}
		}
	}
	sh.Exhaustive["parameter_grid"] = exhaustive
	sh.Sample(c19case{0.2, 0.1, 1, 10, c19views(rnd, 10)[4]})
	// seeded cases with more sessions
	n := a.Pick(160, 20000)
	for i := 0; i < n; i++ {
		if !a.Mine(i) {
			continue
		}
		r := rand.New(rand.NewSource(a.CaseSeed(i)))
		local := r.Intn(a.Pick(80, 300))
		views := c19views(r, local)
		c := c19case{
			Threshold: []float64{0.01, 0.1, 0.2, 0.25, 0.5, 1, 1.5, 2}[r.Intn(8)],
			ShedRate:  []float64{0, 0.005, 0.01, 0.05, 0.2, 0.25, 0.75, 1}[r.Intn(8)],
			MinConns:  uint(r.Intn(50)),
			Local:     local,
			View:      views[r.Intn(len(views))],
		}
		if i%20 == 0 {
			fmt.Printf("CASE C19 seeded %d %+v\n", i, c)
		}
		sig, what, inc := runC19Case(rg, c, r, sh)
		sh.Eval()
		if inc {
			sh.Inconcl("%s", what)
			continue
		}
		if sig != "" {
			sh.Violate(sig, what, c)
			return
		}
	}
}

func init() {
	props.Register(&props.Prop{
		ID: "C19", Level: "exploration", Race: true, ExhaustiveWhenAll: false,
		Rule: "the real upstream.Server.Rebalance() with real sessions (WebSocket+yamux clients over loopback registered through the upstream route) and an injected routing view; one Rebalance() call per case; sessions closed = drop in open registered sessions read from the server immediately after the call, cross-checked against the number of clients whose session ended and against deregistration in the manager and cluster state. Reference (exact rational arithmetic, 1e-9 borderline band accepted either way): nothing is shed unless other nodes are known, local >= max(1,min_conns), local > avg and (local-avg)/avg >= threshold, avg = floor(active total / active nodes); when permitted, closed <= min(open, max(1, ceil(avg*shed_rate))). Grid enumerated completely: 5 thresholds x 6 rates x 4 minimums x 13 local counts x 12 views (active/unreachable/left peers with seeded counts), plus seeded cases with up to 80 (thorough 300) sessions. Distinct = hash of the case and its outcome. The 'enabled' guard: a fully assembled node with threshold 0 holding 8 connections next to an idle peer must close none within 3.5 s (three rebalance periods), while a twin with threshold 0.1 must shed (positive control).",
		Assumptions: []string{
			"safety only: no lower bound on shedding is asserted, but the run fails as 'observed nothing' if no case shed",
			"rebalance configuration swapped per case through a verif-tagged setter (the server reads it on every call)",
		},
		RequireCounters: []string{"cases_shedding", "cases_not_permitted", "sessions_shed", "rebalance_calls", "enabled_guard_probe", "enabled_guard_control_sessions_shed"},
		Shards:          func(string) int { return 16 },
		Run:             runC19,
	})
}
