// Package comp is engine E4: component harnesses assembled from piko's public
// constructors (cluster.State, LoadBalancedManager, the real syncer and a real
// gossip state), driven from generated histories sequentially and from many
// goroutines, with reference-model and porcupine oracles.
package comp

import (
	"fmt"
	"math/rand"
	"sort"
	"strconv"
	"strings"
	"sync"
	"sync/atomic"
	"time"

	"github.com/andydunstall/piko/pkg/gossip"
	"github.com/andydunstall/piko/pkg/log"
	"github.com/andydunstall/piko/server/cluster"
	servergossip "github.com/andydunstall/piko/server/gossip"
	"github.com/andydunstall/piko/server/upstream"

	"net"

	"verif/harness/core"
	"verif/harness/props"
)

// fakeUp is a harness-defined upstream: identity is the pointer.
type fakeUp struct {
	ep string
	id int
}

func (u *fakeUp) EndpointID() string      { return u.ep }
func (u *fakeUp) Dial() (net.Conn, error) { return nil, fmt.Errorf("not dialable") }
func (u *fakeUp) Forward() bool           { return false }
func (u *fakeUp) String() string          { return fmt.Sprintf("u%d@%s", u.id, u.ep) }

type nullConn struct{}

func (nullConn) ReadFrom(p []byte) (int, net.Addr, error)     { select {} }
func (nullConn) WriteTo(p []byte, a net.Addr) (int, error)    { return len(p), nil }
func (nullConn) Close() error                                 { return nil }
func (nullConn) LocalAddr() net.Addr                          { return &net.UDPAddr{} }
func (nullConn) SetDeadline(time.Time) error                  { return nil }
func (nullConn) SetReadDeadline(time.Time) error              { return nil }
func (nullConn) SetWriteDeadline(time.Time) error             { return nil }

// rig is one node's registry stack: manager -> cluster.State -> syncer -> gossip state.
type rig struct {
	cs  *cluster.State
	mgr *upstream.LoadBalancedManager
	v   *gossip.VNode
	syn *servergossip.VSyncer
	dg  *delayGossiper
}

// delayGossiper forwards the syncer's publications to the real gossip state
// after an injected delay: it sits exactly between the syncer reading the
// local count and writing it to gossip, i.e. at the point where a missing
// serialisation of concurrent updates would reorder publications.
type delayGossiper struct {
	v     *gossip.VNode
	on    atomic.Bool
	calls atomic.Int64
	slept atomic.Int64
}

func (d *delayGossiper) pause() {
	n := d.calls.Add(1)
	if d.on.Load() && n%3 == 0 {
		d.slept.Add(1)
		time.Sleep(time.Duration(20+(n*7919)%180) * time.Microsecond)
	}
}
func (d *delayGossiper) UpsertLocal(k, v string) { d.pause(); d.v.UpsertLocal(k, v) }
func (d *delayGossiper) DeleteLocal(k string)    { d.pause(); d.v.DeleteLocal(k) }

func newRig() *rig {
	cs := cluster.NewState(&cluster.Node{ID: "local", ProxyAddr: "127.0.0.1:1", AdminAddr: "127.0.0.1:2"}, log.NewNopLogger())
	syn := servergossip.NewVSyncer(cs)
	v := gossip.NewVNode(gossip.VNodeConfig{ID: "local", Addr: "127.0.0.1:3", MaxPacketSize: 1400,
		PacketConn: nullConn{}, Watcher: syn.Watcher()})
	dg := &delayGossiper{v: v}
	syn.Sync(dg)
	return &rig{cs: cs, mgr: upstream.NewLoadBalancedManager(cs, nil), v: v, syn: syn, dg: dg}
}

func epCounts(m map[string]int) string {
	ks := make([]string, 0, len(m))
	for k, v := range m {
		if v != 0 {
			ks = append(ks, k+":"+strconv.Itoa(v))
		}
	}
	sort.Strings(ks)
	return "{" + strings.Join(ks, " ") + "}"
}

// views returns the three published views of the registry.
func (r *rig) views() (mgr, cl, gos map[string]int, bad string) {
	mgr = r.mgr.Endpoints()
	cl = r.cs.LocalNode().Endpoints
	gos = map[string]int{}
	for _, e := range r.v.LocalNode().Entries {
		if e.Internal || !strings.HasPrefix(e.Key, "endpoint:") {
			continue
		}
		if e.Deleted {
			continue
		}
		n, err := strconv.Atoi(e.Value)
		if err != nil || n <= 0 {
			bad = fmt.Sprintf("gossip entry %s=%q is not a positive count", e.Key, e.Value)
		}
		gos[strings.TrimPrefix(e.Key, "endpoint:")] = n
	}
	return
}

// agree compares the three views with the reference; returns "" if all equal.
func (r *rig) agree(ref map[string]int) string {
	mgr, cl, gos, bad := r.views()
	if bad != "" {
		return bad
	}
	want := epCounts(ref)
	if epCounts(mgr) != want || epCounts(cl) != want || epCounts(gos) != want {
		return fmt.Sprintf("registered upstreams %s, manager reports %s, cluster state advertises %s, gossip publishes %s", want, epCounts(mgr), epCounts(cl), epCounts(gos))
	}
	for k, v := range mgr {
		if v == 0 {
			return fmt.Sprintf("manager keeps an empty balancer for %q", k)
		}
	}
	for k, v := range cl {
		if v == 0 {
			return fmt.Sprintf("cluster state keeps a zero count for %q", k)
		}
	}
	return ""
}

type c05op struct {
	Kind string `json:"k"` // add | remove | proxyRemove
	U    int    `json:"u"`
	Ep   string `json:"ep"`
}

func (o c05op) String() string { return fmt.Sprintf("%s(u%d@%s)", o.Kind, o.U, o.Ep) }

// seqHistory runs one sequential history and returns a failure description.
func seqHistory(r *rand.Rand, nops int, sh *core.Shard) (ops []c05op, sig, what string) {
	rg := newRig()
	eps := []string{"e1", "e10", "e1-x", "E1", "caf\xe9"} // near misses, a differently cased twin, an id that is not valid UTF-8 (legal: any percent-decoded path segment)
	type obj struct {
		u       *fakeUp
		added   bool
		removed int
	}
	var objs []*obj
	ref := map[string]int{}
	newObj := func() *obj {
		o := &obj{u: &fakeUp{ep: eps[r.Intn(len(eps))], id: len(objs)}}
		objs = append(objs, o)
		return o
	}
	for i := 0; i < 4; i++ {
		newObj()
	}
	dupRemovals, lateRemovals, neverAdded, echoes := 0, 0, 0, 0
	for i := 0; i < nops; i++ {
		var o *obj
		if r.Intn(6) == 0 || len(objs) == 0 {
			o = newObj()
		} else {
			o = objs[r.Intn(len(objs))]
		}
		var op c05op
		switch {
		case r.Intn(25) == 0:
			// a peer echoes what it holds about THIS node: the state of a previous
			// incarnation with the same node id (a crash and restart with a fixed
			// cluster.node_id), at versions above the current ones. What the node
			// advertises is its own registry, never what peers say about it.
			echoes++
			own := rg.v.LocalNode()
			ep := eps[r.Intn(len(eps))]
			op = c05op{"peerEcho", -1, ep}
			ents := []gossip.Entry{{Key: "endpoint:" + ep, Value: strconv.Itoa(1 + r.Intn(4)), Version: own.Version + 1 + uint64(r.Intn(50))}}
			if r.Intn(2) == 0 {
				ents = append(ents, gossip.Entry{Key: "endpoint:" + eps[r.Intn(len(eps))], Version: ents[0].Version + 1, Deleted: true})
			}
			rg.v.ApplyDelta([]gossip.VDeltaEntry{{ID: own.ID, Addr: own.Addr, Entries: ents}})
		case !o.added && o.removed == 0 && r.Intn(8) != 0:
			op = c05op{"add", o.u.id, o.u.ep}
			rg.mgr.AddConn(o.u)
			o.added = true
			ref[o.u.ep]++
		default:
			// remove: first, repeated, late, or of a never-added object
			op = c05op{"remove", o.u.id, o.u.ep}
			if r.Intn(3) == 0 {
				// the proxy's path: it obtained the upstream from Select
				op.Kind = "proxyRemove"
			}
			rg.mgr.RemoveConn(o.u)
			switch {
			case o.added && o.removed == 0:
				ref[o.u.ep]--
				if ref[o.u.ep] == 0 {
					delete(ref, o.u.ep)
				}
			case o.added:
				dupRemovals++
				if ref[o.u.ep] > 0 {
					lateRemovals++ // a sibling of the same endpoint is still registered
				}
			default:
				neverAdded++
			}
			o.removed++
		}
		ops = append(ops, op)
		if d := rg.agree(ref); d != "" {
			return ops, "count-mismatch", fmt.Sprintf("after %s (op %d): %s", op, i, d)
		}
		// availability follows the count
		for _, e := range eps {
			u, ok := rg.mgr.Select(e, false)
			if (ref[e] > 0) != ok || (ok && u == nil) {
				return ops, "select-availability", fmt.Sprintf("after %s: %d upstreams registered for %q but Select returned ok=%v upstream=%v", op, ref[e], e, ok, u)
			}
		}
	}
	sh.Count("seq_ops", int64(len(ops)))
	sh.Count("duplicate_removals", int64(dupRemovals))
	sh.Count("duplicate_removals_with_sibling_connected", int64(lateRemovals))
	sh.Count("removals_of_never_added", int64(neverAdded))
	sh.Count("peer_echoes_about_local_node", int64(echoes))
	if lateRemovals > 0 {
		sh.Nontrivial(core.Hash("seq", fmt.Sprint(ops)))
	}
	return ops, "", ""
}

// concRound2 runs one concurrent round: workers own one-shot upstream objects
// (add, then one or more removals), two "proxy" goroutines remove upstreams
// they obtained from Select (as the proxy does after a go-away) and read the
// status views, and at every barrier the three views must equal the number of
// objects that were added and never removed by anybody.
func concRound2(r *rand.Rand, workers, phases, opsPerPhase int, sh *core.Shard) (sig, what string) {
	rg := newRig()
	rg.dg.on.Store(true)
	defer func() { sh.Count("injected_publication_delays", rg.dg.slept.Load()) }()
	eps := []string{"e1", "e10", "e1-x", "E1", "caf\xe9"} // near misses, a differently cased twin, an id that is not valid UTF-8 (legal: any percent-decoded path segment)
	type obj struct {
		u       *fakeUp
		added   atomic.Bool
		removes atomic.Int32
	}
	var mu sync.Mutex
	byUp := map[*fakeUp]*obj{}
	var nextID atomic.Int32
	seeds := make([]int64, workers+2)
	for i := range seeds {
		seeds[i] = r.Int63()
	}
	var raced atomic.Int64 // removals of one object by two parties
	for ph := 0; ph < phases; ph++ {
		var workersWG, proxyWG sync.WaitGroup
		stop := make(chan struct{})
		for w := 0; w < workers; w++ {
			workersWG.Add(1)
			go func(w int) {
				defer workersWG.Done()
				wr := rand.New(rand.NewSource(seeds[w] + int64(ph)))
				var mine []*obj
				for i := 0; i < opsPerPhase; i++ {
					if len(mine) == 0 || wr.Intn(2) == 0 {
						o := &obj{u: &fakeUp{ep: eps[wr.Intn(len(eps))], id: int(nextID.Add(1))}}
						mu.Lock()
						byUp[o.u] = o
						mu.Unlock()
						rg.mgr.AddConn(o.u)
						o.added.Store(true)
						mine = append(mine, o)
					} else {
						k := wr.Intn(len(mine))
						o := mine[k]
						if o.removes.Add(1) > 1 {
							raced.Add(1)
						}
						rg.mgr.RemoveConn(o.u)
						if wr.Intn(3) != 0 {
							mine = append(mine[:k], mine[k+1:]...)
						} // else it is removed again later
					}
				}
			}(w)
		}
		for p := 0; p < 2; p++ {
			proxyWG.Add(1)
			go func(p int) {
				defer proxyWG.Done()
				pr := rand.New(rand.NewSource(seeds[workers+p] + int64(ph)))
				for {
					select {
					case <-stop:
						return
					default:
					}
					u, ok := rg.mgr.Select(eps[pr.Intn(len(eps))], false)
					if ok && u != nil && pr.Intn(4) == 0 {
						mu.Lock()
						o := byUp[u.(*fakeUp)]
						mu.Unlock()
						if o != nil {
							if o.removes.Add(1) > 1 {
								raced.Add(1)
							}
							rg.mgr.RemoveConn(u)
						}
					}
					_ = rg.mgr.Endpoints()
					_ = rg.cs.LocalNode()
					_ = rg.v.LocalNode()
				}
			}(p)
		}
		done := make(chan struct{})
		go func() { workersWG.Wait(); close(done) }()
		select {
		case <-done:
		case <-time.After(60 * time.Second):
			close(stop)
			return "deadlock", fmt.Sprintf("concurrent phase %d (%d workers) did not finish within 60 s", ph, workers)
		}
		close(stop)
		proxyWG.Wait()
		ref := map[string]int{}
		mu.Lock()
		for _, o := range byUp {
			if o.added.Load() && o.removes.Load() == 0 {
				ref[o.u.ep]++
			}
		}
		mu.Unlock()
		if d := rg.agree(ref); d != "" {
			return "count-mismatch", fmt.Sprintf("at the barrier after concurrent phase %d (%d workers + 2 proxy goroutines): %s", ph, workers, d)
		}
		sh.Count("barriers", 1)
	}
	sh.Count("concurrent_ops", int64(workers*phases*opsPerPhase))
	sh.Count("double_removals_by_two_parties", raced.Load())
	sh.Nontrivial(core.Hash("conc", workers, phases, opsPerPhase, len(byUp), raced.Load()))
	return "", ""
}

func runC05(sh *core.Shard, a props.Args) {
	nseq := a.Pick(4000, 200000)
	nconc := a.Pick(160, 4000)
	for i := 0; i < nseq; i++ {
		if !a.Mine(i) {
			continue
		}
		r := rand.New(rand.NewSource(a.CaseSeed(i)))
		if i%2000 == 0 {
			fmt.Printf("CASE C05 seq=%d\n", i)
		}
		ops, sig, what := seqHistory(r, 20+r.Intn(40), sh)
		sh.Eval()
		if i < 2 {
			sh.Sample(map[string]any{"kind": "sequential", "ops": fmt.Sprint(ops)})
		}
		if sig != "" {
			sh.Violate(sig, what, map[string]any{"kind": "sequential", "ops": ops})
			break
		}
	}
	// the D1 history, always
	if a.Shard == 0 {
		rg := newRig()
		x, y := &fakeUp{ep: "e", id: 1}, &fakeUp{ep: "e", id: 2}
		rg.mgr.AddConn(x)
		rg.mgr.AddConn(y)
		rg.mgr.RemoveConn(x)
		rg.mgr.RemoveConn(x)
		sh.Eval()
		if d := rg.agree(map[string]int{"e": 1}); d != "" {
			sh.Violate("count-mismatch", "go-away history Add(a,e) Add(b,e) Remove(a) Remove(a): "+d, map[string]any{"kind": "d1-history"})
		}
	}
	for i := 0; i < nconc; i++ {
		if !a.Mine(i) {
			continue
		}
		r := rand.New(rand.NewSource(a.CaseSeed(1_000_000 + i)))
		workers := 4 + r.Intn(13)
		fmt.Printf("CASE C05 conc=%d workers=%d\n", i, workers)
		sig, what := concRound2(r, workers, 3+r.Intn(3), 20+r.Intn(60), sh)
		sh.Eval()
		if i < 1 {
			sh.Sample(map[string]any{"kind": "concurrent", "workers": workers})
		}
		if sig != "" {
			sh.Violate(sig, what, map[string]any{"kind": "concurrent", "workers": workers, "seed": a.CaseSeed(1_000_000 + i)})
			break
		}
	}
}

func init() {
	props.Register(&props.Prop{
		ID: "C05", Level: "exploration", Race: true,
		Rule: "the real LoadBalancedManager + cluster.State + syncer + gossip state of one node, driven (a) by seeded sequential histories over 5 endpoint ids (near misses e1/e10/e1-x, the differently cased E1, and caf\\xe9 which is not valid UTF-8) and one-shot upstream objects: add, remove, a peer echoing a delta that names this node itself with endpoint entries above its current version (what a previous incarnation with the same node id left behind), repeated and late removal (the proxy's ErrGone path followed by the handler's deferred removal), removal of never-added objects; after every operation the reference count per endpoint must equal manager.Endpoints(), cluster LocalNode().Endpoints and the live endpoint:<id> gossip entries (absent or tombstoned iff 0), and Select(e,false) must succeed iff the count is positive; (b) by 4-16 worker goroutines plus 2 'proxy' goroutines that remove what Select hands out plus status readers, under the race detector, with the same equality asserted at every barrier (reference = objects added and never removed by anybody). Non-trivial sequential history = contains a duplicate removal while a sibling of the same endpoint is registered; distinct = hash of the operation list / of the round parameters.",
		Assumptions: []string{
			"an upstream object is registered at most once (the server creates a fresh ConnUpstream per connection)",
			"gossip publication observed on the node's own gossip state (propagation to peers is C02-C04)",
		},
		RequireCounters: []string{"duplicate_removals_with_sibling_connected", "removals_of_never_added", "peer_echoes_about_local_node", "barriers", "double_removals_by_two_parties"},
		Timeout: func(tier string) time.Duration {
			if tier == "thorough" {
				return 60 * time.Minute
			}
			return 10 * time.Minute
		},
		Run: runC05,
	})
}
