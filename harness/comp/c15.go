package comp

import (
	"fmt"
	"math/rand"
	"sort"
	"strings"
	"sync"
	"sync/atomic"
	"time"

	"github.com/anishathalye/porcupine"

	"github.com/andydunstall/piko/server/cluster"
	"github.com/andydunstall/piko/server/upstream"

	"verif/harness/core"
	"verif/harness/props"
)

// ---- C15: upstream selection is valid and round-robin fair ------------------------------

type c15op struct {
	Kind string `json:"k"` // add | remove | select | selectRemote
	Ep   string `json:"ep"`
	U    int    `json:"u,omitempty"`
	Got  string `json:"got,omitempty"`
}

func (o c15op) String() string {
	switch o.Kind {
	case "select", "selectRemote":
		return fmt.Sprintf("%s(%s)->%s", o.Kind, o.Ep, o.Got)
	}
	return fmt.Sprintf("%s(u%d@%s)", o.Kind, o.U, o.Ep)
}

func describe(u upstream.Upstream, ok bool) string {
	if !ok {
		return "none"
	}
	if u == nil {
		return "nil-but-ok"
	}
	if f, isFake := u.(*fakeUp); isFake {
		return fmt.Sprintf("u%d@%s", f.id, f.ep)
	}
	if u.Forward() {
		return "remote@" + u.EndpointID()
	}
	return "other"
}

// c15Sequential: reference = ordered member list per endpoint.
func c15Sequential(r *rand.Rand, nops int, sh *core.Shard) (ops []c15op, sig, what string) {
	rg := newRig()
	eps := []string{"e1", "e10", "e1-x", "E1"}
	// a remote node advertises some endpoints (used by selectRemote)
	remoteEps := map[string]int{}
	for _, e := range eps {
		if r.Intn(2) == 0 {
			remoteEps[e] = 1 + r.Intn(3)
		}
	}
	rg.cs.AddNode(&cluster.Node{ID: "remote", Status: cluster.NodeStatusActive, ProxyAddr: "127.0.0.1:9", AdminAddr: "127.0.0.1:10", Endpoints: remoteEps})
	pool := map[string][]*fakeUp{}
	id := 0
	for _, e := range eps {
		for k := 0; k < 6; k++ {
			id++
			pool[e] = append(pool[e], &fakeUp{ep: e, id: id})
		}
	}
	members := map[string][]*fakeUp{} // reference set (order irrelevant to the oracle)
	isMember := func(e string, u *fakeUp) bool {
		for _, m := range members[e] {
			if m == u {
				return true
			}
		}
		return false
	}
	// fairness tracking per endpoint: results since the set last changed
	since := map[string][]*fakeUp{}
	fail := func(s, w string) ([]c15op, string, string) { return ops, s, w }
	for i := 0; i < nops; i++ {
		e := eps[r.Intn(len(eps))]
		switch k := r.Intn(10); {
		case k < 2: // add a non-member
			var cands []*fakeUp
			for _, u := range pool[e] {
				if !isMember(e, u) {
					cands = append(cands, u)
				}
			}
			if len(cands) == 0 {
				continue
			}
			u := cands[r.Intn(len(cands))]
			rg.mgr.AddConn(u)
			members[e] = append(members[e], u)
			since[e] = nil
			ops = append(ops, c15op{Kind: "add", Ep: e, U: u.id})
		case k < 4: // remove: member (incl. the one under the cursor / the last), non-member, or everything
			var u *fakeUp
			mode := r.Intn(6)
			switch {
			case mode == 0: // a non-member / unknown upstream
				u = pool[e][r.Intn(len(pool[e]))]
			case mode == 1 && len(members[e]) > 0: // the one Select would return next
				nx, ok := rg.mgr.Select(e, false)
				ops = append(ops, c15op{Kind: "select", Ep: e, Got: describe(nx, ok)})
				if ok && nx != nil {
					u, _ = nx.(*fakeUp)
				}
				since[e] = nil // simplify: restart the fairness window
			case mode == 2 && len(members[e]) > 0: // the last one added
				u = members[e][len(members[e])-1]
			case mode == 3: // everything
				for len(members[e]) > 0 {
					x := members[e][0]
					rg.mgr.RemoveConn(x)
					members[e] = members[e][1:]
					ops = append(ops, c15op{Kind: "remove", Ep: e, U: x.id})
				}
				since[e] = nil
				continue
			default:
				if len(members[e]) > 0 {
					u = members[e][r.Intn(len(members[e]))]
				}
			}
			if u == nil {
				continue
			}
			wasMember := isMember(e, u)
			rg.mgr.RemoveConn(u)
			ops = append(ops, c15op{Kind: "remove", Ep: e, U: u.id})
			if wasMember {
				out := members[e][:0]
				for _, m := range members[e] {
					if m != u {
						out = append(out, m)
					}
				}
				members[e] = out
				since[e] = nil
			}
		case k < 9: // select (not forwardable)
			got, ok := rg.mgr.Select(e, false)
			ops = append(ops, c15op{Kind: "select", Ep: e, Got: describe(got, ok)})
			n := len(members[e])
			if n == 0 {
				if ok {
					return fail("select-from-empty", fmt.Sprintf("Select(%q,false) returned %s although no upstream is registered for it", e, describe(got, ok)))
				}
				continue
			}
			if !ok || got == nil {
				return fail("select-missed", fmt.Sprintf("Select(%q,false) returned %s although %d upstreams are registered", e, describe(got, ok), n))
			}
			if got.Forward() {
				return fail("remote-when-not-allowed", fmt.Sprintf("Select(%q,false) returned a remote node", e))
			}
			fu, isFake := got.(*fakeUp)
			if !isFake || !isMember(e, fu) {
				return fail("select-non-member", fmt.Sprintf("Select(%q,false) returned %s which is not currently registered for that endpoint (members: %v)", e, describe(got, ok), members[e]))
			}
			since[e] = append(since[e], fu)
			// round-robin: any n consecutive results with an unchanged set are a permutation
			if w := since[e]; len(w) >= n {
				win := w[len(w)-n:]
				seen := map[*fakeUp]bool{}
				for _, x := range win {
					seen[x] = true
				}
				if len(seen) != n {
					return fail("not-round-robin", fmt.Sprintf("with a stable set of %d upstreams for %q the last %d selections were %v: not each member once", n, e, n, win))
				}
				sh.Count("fair_windows_checked", 1)
			}
		default: // select with forwarding allowed
			got, ok := rg.mgr.Select(e, true)
			ops = append(ops, c15op{Kind: "selectRemote", Ep: e, Got: describe(got, ok)})
			n := len(members[e])
			switch {
			case n > 0:
				fu, isFake := got.(*fakeUp)
				if !ok || !isFake || !isMember(e, fu) {
					return fail("local-not-preferred", fmt.Sprintf("Select(%q,true) returned %s although %d local upstreams are registered", e, describe(got, ok), n))
				}
				since[e] = append(since[e], fu)
			case remoteEps[e] > 0:
				if !ok || got == nil || !got.Forward() || got.EndpointID() != e {
					return fail("remote-missed", fmt.Sprintf("Select(%q,true) returned %s although a remote node advertises it and no local upstream exists", e, describe(got, ok)))
				}
				sh.Count("remote_selections", 1)
			default:
				if ok {
					return fail("select-from-empty", fmt.Sprintf("Select(%q,true) returned %s although nobody serves it", e, describe(got, ok)))
				}
			}
		}
	}
	// starvation: after the history every remaining member is returned within 2n selects
	for _, e := range eps {
		n := len(members[e])
		if n == 0 {
			continue
		}
		seen := map[*fakeUp]bool{}
		for k := 0; k < 2*n; k++ {
			got, ok := rg.mgr.Select(e, false)
			if fu, isFake := got.(*fakeUp); ok && isFake {
				seen[fu] = true
			}
		}
		for _, m := range members[e] {
			if !seen[m] {
				return fail("starved", fmt.Sprintf("upstream %v of %q was not selected in %d selections (members %v)", m, e, 2*n, members[e]))
			}
		}
	}
	sh.Count("seq_ops", int64(len(ops)))
	return ops, "", ""
}

// c15Churn: a stable set of upstreams while one more upstream of the same
// endpoint connects and disconnects between requests (a flapping client). With a
// correct round-robin every stable member keeps being selected; the oracle is a
// starvation bound on the number of selections of that endpoint a continuous
// member has to wait.
func c15Churn(stable, selectsWhileUp, selectsWhileDown, iterations int, sh *core.Shard) (sig, what string) {
	rg := newRig()
	const ep = "churn"
	var members []*fakeUp
	for i := 0; i < stable; i++ {
		u := &fakeUp{ep: ep, id: i + 1}
		members = append(members, u)
		rg.mgr.AddConn(u)
	}
	wait := map[*fakeUp]int{}
	maxWait := 0
	sel := func() (string, string) {
		got, ok := rg.mgr.Select(ep, false)
		fu, isFake := got.(*fakeUp)
		if !ok || !isFake {
			return "select-missed", fmt.Sprintf("Select returned %s with %d stable members registered", describe(got, ok), stable)
		}
		for _, m := range members {
			if m == fu {
				wait[m] = 0
			} else {
				wait[m]++
				if wait[m] > maxWait {
					maxWait = wait[m]
				}
			}
		}
		return "", ""
	}
	bound := 3*(stable+1) + 3
	for it := 0; it < iterations; it++ {
		x := &fakeUp{ep: ep, id: 1000 + it}
		rg.mgr.AddConn(x)
		for k := 0; k < selectsWhileUp; k++ {
			if s, w := sel(); s != "" {
				return s, w
			}
		}
		rg.mgr.RemoveConn(x)
		for k := 0; k < selectsWhileDown; k++ {
			if s, w := sel(); s != "" {
				return s, w
			}
		}
		for _, m := range members {
			if wait[m] > bound {
				return "starved", fmt.Sprintf("%d stable upstreams while another one of the same endpoint connects (then %d selections) and disconnects (then %d selections): upstream u%d has not been selected in the last %d selections of the endpoint (bound %d)", stable, selectsWhileUp, selectsWhileDown, m.id, wait[m], bound)
			}
		}
	}
	sh.Max("churn_max_wait", int64(maxWait))
	sh.Count("churn_patterns", 1)
	return "", ""
}

// ---- concurrent histories checked with porcupine -----------------------------------------

type pIn struct {
	Kind string // add | remove | select
	Ep   string
	U    int
}

type pOut struct {
	Got   int // selected upstream id, 0 = none
	Other bool
}

func setKey(m map[int]bool) string {
	ids := make([]int, 0, len(m))
	for k := range m {
		ids = append(ids, k)
	}
	sort.Ints(ids)
	var sb strings.Builder
	for _, k := range ids {
		fmt.Fprintf(&sb, "%d,", k)
	}
	return sb.String()
}

var c15Model = porcupine.Model{
	Partition: func(history []porcupine.Operation) [][]porcupine.Operation {
		by := map[string][]porcupine.Operation{}
		for _, op := range history {
			by[op.Input.(pIn).Ep] = append(by[op.Input.(pIn).Ep], op)
		}
		var out [][]porcupine.Operation
		for _, v := range by {
			out = append(out, v)
		}
		return out
	},
	Init: func() interface{} { return "" },
	Step: func(state, input, output interface{}) (bool, interface{}) {
		st := state.(string)
		in := input.(pIn)
		set := map[int]bool{}
		for _, f := range strings.Split(st, ",") {
			if f != "" {
				var v int
				fmt.Sscan(f, &v)
				set[v] = true
			}
		}
		switch in.Kind {
		case "add":
			set[in.U] = true
			return true, setKey(set)
		case "remove":
			delete(set, in.U)
			return true, setKey(set)
		default:
			out := output.(pOut)
			if out.Other {
				return false, st
			}
			if out.Got == 0 {
				return len(set) == 0, st
			}
			return set[out.Got], st
		}
	},
	Equal: func(a, b interface{}) bool { return a.(string) == b.(string) },
	DescribeOperation: func(input, output interface{}) string {
		in := input.(pIn)
		if in.Kind == "select" {
			return fmt.Sprintf("select(%s)->%d", in.Ep, output.(pOut).Got)
		}
		return fmt.Sprintf("%s(u%d@%s)", in.Kind, in.U, in.Ep)
	},
}

func c15Concurrent(r *rand.Rand, workers, opsPer int, sh *core.Shard) (sig, what string, inconclusive bool) {
	rg := newRig()
	eps := []string{"e1", "e10"}
	var clock atomic.Int64
	var mu sync.Mutex
	var history []porcupine.Operation
	var wg sync.WaitGroup
	var nextID atomic.Int32
	var panicked atomic.Value
	seeds := make([]int64, workers)
	for i := range seeds {
		seeds[i] = r.Int63()
	}
	for w := 0; w < workers; w++ {
		wg.Add(1)
		go func(w int) {
			defer wg.Done()
			defer func() {
				if p := recover(); p != nil {
					panicked.Store(fmt.Sprint(p))
				}
			}()
			wr := rand.New(rand.NewSource(seeds[w]))
			var mine []*fakeUp
			for i := 0; i < opsPer; i++ {
				e := eps[wr.Intn(len(eps))]
				var in pIn
				var out pOut
				call := clock.Add(1)
				switch k := wr.Intn(10); {
				case k < 3:
					u := &fakeUp{ep: e, id: int(nextID.Add(1))}
					mine = append(mine, u)
					in = pIn{"add", e, u.id}
					call = clock.Add(1)
					rg.mgr.AddConn(u)
				case k < 5 && len(mine) > 0:
					j := wr.Intn(len(mine))
					u := mine[j]
					mine = append(mine[:j], mine[j+1:]...)
					in = pIn{"remove", u.ep, u.id}
					call = clock.Add(1)
					rg.mgr.RemoveConn(u)
				default:
					in = pIn{"select", e, 0}
					call = clock.Add(1)
					got, ok := rg.mgr.Select(e, false)
					switch {
					case !ok:
					case got == nil:
						out.Other = true
					default:
						if fu, isFake := got.(*fakeUp); isFake && fu.ep == e {
							out.Got = fu.id
						} else {
							out.Other = true
						}
					}
				}
				ret := clock.Add(1)
				mu.Lock()
				history = append(history, porcupine.Operation{ClientId: w, Input: in, Call: call, Output: out, Return: ret})
				mu.Unlock()
			}
		}(w)
	}
	done := make(chan struct{})
	go func() { wg.Wait(); close(done) }()
	select {
	case <-done:
	case <-time.After(60 * time.Second):
		return "deadlock", fmt.Sprintf("%d concurrent workers on the manager did not finish within 60 s", workers), false
	}
	if p := panicked.Load(); p != nil {
		return "panic", "selector panicked under concurrent add/remove/select: " + p.(string), false
	}
	res, info := porcupine.CheckOperationsVerbose(c15Model, history, 20*time.Second)
	_ = info
	sh.Count("porcupine_operations", int64(len(history)))
	switch res {
	case porcupine.Ok:
		return "", "", false
	case porcupine.Unknown:
		return "", "", true
	}
	// find a compact description: the illegal selects
	var bad []string
	for _, op := range history {
		if in := op.Input.(pIn); in.Kind == "select" && op.Output.(pOut).Other {
			bad = append(bad, "select("+in.Ep+") returned a foreign/nil upstream")
		}
	}
	return "not-linearizable", fmt.Sprintf("concurrent history of %d operations over %d workers is not linearizable against the set model (Select must return a currently registered upstream of that endpoint, or none iff empty) %v", len(history), workers, bad), false
}

// c15Handover: the endpoint's last registered upstream disconnects at the very
// moment its replacements connect (an agent reconnecting while the old session is
// torn down), with selectors running. Goroutines are released together; judged at
// quiescence only: every replacement is registered, so k consecutive selections
// return each of them exactly once, and after they disconnect nothing is selectable.
func c15Handover(rounds, adders, selectors int, sh *core.Shard) (sig, what string) {
	rg := newRig()
	for round := 0; round < rounds; round++ {
		ep := fmt.Sprintf("handover-%d", round%3)
		old := &fakeUp{ep: ep, id: 1000}
		rg.mgr.AddConn(old)
		var news []*fakeUp
		for i := 0; i < adders; i++ {
			news = append(news, &fakeUp{ep: ep, id: i + 1})
		}
		start := make(chan struct{})
		stop := make(chan struct{})
		var wg, swg sync.WaitGroup
		var bad atomic.Value
		wg.Add(1)
		go func() { defer wg.Done(); <-start; rg.mgr.RemoveConn(old) }()
		for _, u := range news {
			wg.Add(1)
			go func(u *fakeUp) { defer wg.Done(); <-start; rg.mgr.AddConn(u) }(u)
		}
		for i := 0; i < selectors; i++ {
			swg.Add(1)
			go func() {
				defer swg.Done()
				<-start
				for {
					select {
					case <-stop:
						return
					default:
					}
					got, ok := rg.mgr.Select(ep, false)
					if ok && got == nil {
						bad.Store("Select returned ok with a nil upstream")
					}
					if fu, isFake := got.(*fakeUp); ok && (!isFake || fu.ep != ep) {
						bad.Store("Select returned " + describe(got, ok) + " for endpoint " + ep)
					}
				}
			}()
		}
		close(start)
		wg.Wait()
		close(stop)
		swg.Wait()
		sh.Count("handover_rounds", 1)
		if b := bad.Load(); b != nil {
			return "select-invalid", fmt.Sprintf("handover round %d: %v", round, b)
		}
		seen := map[*fakeUp]int{}
		for i := 0; i < adders; i++ {
			got, ok := rg.mgr.Select(ep, false)
			fu, isFake := got.(*fakeUp)
			if !ok || !isFake {
				return "select-from-nonempty-missed", fmt.Sprintf("handover round %d: %d upstreams connected while the last old one disconnected; at quiescence Select returned %s", round, adders, describe(got, ok))
			}
			seen[fu]++
		}
		for _, u := range news {
			if seen[u] != 1 {
				return "unfair-window", fmt.Sprintf("handover round %d: %d upstreams connected while the last old one disconnected; in %d consecutive selections at quiescence upstream %d was returned %d times (old one: %d times)", round, adders, adders, u.id, seen[u], seen[old])
			}
		}
		for _, u := range news {
			rg.mgr.RemoveConn(u)
		}
		if got, ok := rg.mgr.Select(ep, false); ok {
			return "select-from-empty", fmt.Sprintf("handover round %d: every upstream disconnected but Select returned %s", round, describe(got, ok))
		}
	}
	return "", ""
}

func runC15(sh *core.Shard, a props.Args) {
	nseq := a.Pick(6000, 300000)
	nconc := a.Pick(400, 24000)
	for i := 0; i < nseq; i++ {
		if !a.Mine(i) {
			continue
		}
		r := rand.New(rand.NewSource(a.CaseSeed(i)))
		if i%2000 == 0 {
			fmt.Printf("CASE C15 seq=%d\n", i)
		}
		var ops []c15op
		var sig, what string
		func() {
			defer func() {
				if p := recover(); p != nil {
					sig, what = "panic", fmt.Sprintf("selector panicked: %v", p)
				}
			}()
			ops, sig, what = c15Sequential(r, 30+r.Intn(90), sh)
		}()
		sh.Eval()
		if i < 2 {
			sh.Sample(map[string]any{"kind": "sequential", "ops": fmt.Sprint(ops)})
		}
		if sig != "" {
			if len(ops) > 0 {
				what += "\n  history tail: " + fmt.Sprint(ops[max(0, len(ops)-25):])
			}
			sh.Violate(sig, what, map[string]any{"kind": "sequential", "case_seed": a.CaseSeed(i), "ops": ops})
			break
		}
		if len(ops) > 20 {
			sh.Nontrivial(core.Hash("seq", fmt.Sprint(ops)))
		}
	}
	// churn patterns, enumerated
	if a.Shard == 0 {
		for stable := 1; stable <= 6; stable++ {
			for up := 0; up <= 4; up++ {
				for down := 0; down <= 4; down++ {
					if up+down == 0 {
						continue
					}
					sig, what := c15Churn(stable, up, down, 60, sh)
					sh.Eval()
					if sig != "" {
						sh.Violate(sig, what, map[string]any{"kind": "churn", "stable": stable, "selects_while_up": up, "selects_while_down": down})
						return
					}
					sh.Nontrivial(core.Hash("churn", stable, up, down))
				}
			}
		}
	}
	{
		fmt.Printf("CASE C15 handover races\n")
		var sig, what string
		func() {
			defer func() {
				if p := recover(); p != nil {
					sig, what = "panic", fmt.Sprintf("selector panicked during a handover race: %v", p)
				}
			}()
			sig, what = c15Handover(a.Pick(1500, 20000), 1+a.Shard%3, 2+a.Shard%4, sh)
		}()
		sh.Eval()
		if sig != "" {
			sh.Violate(sig, what, map[string]any{"kind": "handover"})
			return
		}
		sh.Nontrivial(core.Hash("handover", a.Shard))
	}
	for i := 0; i < nconc; i++ {
		if !a.Mine(i) {
			continue
		}
		r := rand.New(rand.NewSource(a.CaseSeed(2_000_000 + i)))
		workers := 4 + r.Intn(13)
		opsPer := 6 + r.Intn(10)
		if i%100 == 0 {
			fmt.Printf("CASE C15 conc=%d workers=%d ops=%d\n", i, workers, opsPer)
		}
		sig, what, inc := c15Concurrent(r, workers, opsPer, sh)
		sh.Eval()
		if inc {
			sh.Inconcl("porcupine timed out on concurrent history %d", i)
			continue
		}
		sh.Count("concurrent_histories_checked", 1)
		if sig != "" {
			sh.Violate(sig, what, map[string]any{"kind": "concurrent", "case_seed": a.CaseSeed(2_000_000 + i), "workers": workers})
			break
		}
		sh.Nontrivial(core.Hash("conc", i, workers, opsPer))
	}
}

func init() {
	props.Register(&props.Prop{
		ID: "C15", Level: "exploration", Race: true,
		Rule: "handover races (1500 rounds per shard, thorough 20000): the endpoint's last registered upstream disconnects while 1-3 replacements connect and 2-5 selectors run, all released together; at quiescence k consecutive selections return each of the k replacements exactly once and nothing is selectable after they disconnect. Further: the real LoadBalancedManager with harness-defined upstream values over near-miss endpoint ids: (a) seeded sequential histories of add / remove (a member, the one Select would return next, the last one, a non-member, everything) / select(allowRemote=false) / select(allowRemote=true) with a remote node injected into the routing table; oracle after every call: the result is a currently registered upstream of exactly that endpoint or none iff the set is empty, never a remote node when forwarding is not allowed, local preferred over remote, any n consecutive selections over an unchanged set of n are a permutation, every remaining member is returned within 2n selections at the end, no panic; (b) 4-16 goroutines issuing add/remove/select with every call stamped (invoke/return) from one atomic counter, the history checked with porcupine against the set model partitioned by endpoint, under the race detector. Distinct = hash of the operation list (sequential) or round parameters (concurrent).",
		Assumptions: []string{
			"an upstream object is registered at most once",
			"round-robin order itself is not modelled in the concurrent check (only validity); fairness is judged on sequential histories",
		},
		RequireCounters: []string{"fair_windows_checked", "remote_selections", "concurrent_histories_checked", "porcupine_operations", "churn_patterns", "handover_rounds"},
		MaxCounters:     []string{"churn_max_wait"},
		Run:             runC15,
	})
}
