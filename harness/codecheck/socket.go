package codecheck

import (
	"fmt"
	"math/rand"
	"net"
	"time"

	"github.com/andydunstall/piko/pkg/gossip"
	"github.com/andydunstall/piko/pkg/log"

	"verif/harness/core"
	"verif/harness/gsim"
	"verif/harness/props"
)

// Socket leg of C13 (3): the same hostile datagrams and streams, sent over real
// loopback sockets to a Gossip created with New(), i.e. through the real
// packetListener.Serve / streamListener.Serve loops (the handler-level leg calls
// handlePacket/handleConn directly and cannot see a receive loop that stops).
// After every batch a valid digest request from the same socket must still be
// answered with a delta, and a valid join over TCP must be answered.

type nopWatcher struct{}

func (nopWatcher) OnJoin(string)                   {}
func (nopWatcher) OnLeave(string)                  {}
func (nopWatcher) OnReachable(string)              {}
func (nopWatcher) OnUnreachable(string)            {}
func (nopWatcher) OnUpsertKey(string, string, string) {}
func (nopWatcher) OnDeleteKey(string, string)      {}
func (nopWatcher) OnExpired(string)                {}

func runSocketLeg(sh *core.Shard, a props.Args, packets, streams int) {
	r := rand.New(rand.NewSource(a.CaseSeed(888_000 + a.Shard)))
	sln, pln, err := gsim.ListenPair()
	if err != nil {
		sh.Inconcl("socket leg: %v", err)
		return
	}
	addr := sln.Addr().String()
	conf := &gossip.Config{BindAddr: addr, AdvertiseAddr: addr, Interval: time.Hour, MaxPacketSize: 1400}
	g := gossip.New(victimID, conf, sln, pln, nopWatcher{}, log.NewNopLogger())
	defer g.Close()
	g.UpsertLocal("proxy_addr", "10.0.0.1:8000")
	g.UpsertLocal("endpoint:a", "2")
	att, err := net.ListenUDP("udp", &net.UDPAddr{IP: net.IPv4(127, 0, 0, 1)})
	if err != nil {
		sh.Inconcl("socket leg: %v", err)
		return
	}
	defer att.Close()
	attAddr := att.LocalAddr().String()
	vaddr := pln.LocalAddr()

	// probe: a valid digest request must be answered by a delta carrying the
	// victim's own state (the reply goes to the address in the header)
	probe := func() string {
		req, _ := gossip.VEncodeDigest("probe", attAddr, true, []gossip.VDigestEntry{{ID: "probe", Addr: attAddr}, {ID: victimID, Addr: addr, Version: 0}}, 1400)
		buf := make([]byte, 65536)
		for try := 0; try < 4; try++ {
			// drain whatever hostile inputs provoked
			_ = att.SetReadDeadline(time.Now().Add(20 * time.Millisecond))
			for {
				if _, _, err := att.ReadFrom(buf); err != nil {
					break
				}
			}
			if _, err := att.WriteTo(req, vaddr); err != nil {
				return "probe send: " + err.Error()
			}
			deadline := time.Now().Add(10 * time.Second)
			for time.Now().Before(deadline) {
				_ = att.SetReadDeadline(deadline)
				n, _, err := att.ReadFrom(buf)
				if err != nil {
					break
				}
				if n > 2 && buf[0] == 2 {
					if _, _, dl, err := gossip.VDecodeDelta(buf[:n]); err == nil {
						for _, de := range dl {
							if de.ID == victimID && len(de.Entries) > 0 {
								return ""
							}
						}
					}
				}
			}
		}
		return "a valid digest request sent to the node's UDP port was not answered with a delta of its state in 4 attempts of 10 s: the node no longer receives datagrams"
	}
	joinProbe := func() string {
		c, err := net.DialTimeout("tcp", addr, 10*time.Second)
		if err != nil {
			return "the node's TCP port no longer accepts connections: " + err.Error()
		}
		defer c.Close()
		_ = c.SetDeadline(time.Now().Add(30 * time.Second))
		req := append([]byte{3, 0}, mpEnc(hdr{NodeID: "probe", Addr: attAddr},
			[]wireDeltaEntry{{ID: "probe", Addr: attAddr, Entries: []gossip.Entry{{Key: "k", Value: "v", Version: 1}}}},
			[]wireDigestEntry{{ID: "probe", Addr: attAddr, Version: 1}})...)
		if _, err := c.Write(req); err != nil {
			return "join probe write: " + err.Error()
		}
		one := make([]byte, 1)
		if _, err := c.Read(one); err != nil {
			return "a valid join over TCP got no response: " + err.Error()
		}
		return ""
	}
	if msg := probe(); msg != "" {
		sh.Inconcl("socket leg: initial probe failed: %s", msg)
		return
	}
	pseeds := append(seedPackets(r), []byte{}) // the zero-length datagram is legal UDP
	sseeds := seedStreams(r)
	for i := 0; i < packets; i++ {
		var in []byte
		if i < len(pseeds) {
			in = pseeds[len(pseeds)-1-i] // the shortest ones first
		} else {
			in = mutate(r, pseeds)
		}
		if len(in) > 60000 {
			in = in[:60000]
		}
		sh.Eval()
		sh.Count("socket_hostile_datagrams", 1)
		if _, err := att.WriteTo(in, vaddr); err != nil {
			continue
		}
		if i%16 == 15 {
			time.Sleep(time.Millisecond) // do not overflow the receive buffer
		}
		if i%100 == 99 || i == packets-1 || i == len(pseeds)-1 {
			if msg := probe(); msg != "" {
				sh.Violate("node-deaf", "after hostile datagrams over the real socket: "+msg, hostileWitness{Kind: "socket-packet", Input: in})
				return
			}
			sh.Count("socket_valid_exchanges_after_hostile", 1)
		}
	}
	for i := 0; i < streams; i++ {
		var in []byte
		if i < len(sseeds) {
			in = sseeds[i]
		} else {
			in = mutate(r, sseeds)
		}
		sh.Eval()
		sh.Count("socket_hostile_streams", 1)
		c, err := net.DialTimeout("tcp", addr, 10*time.Second)
		if err != nil {
			sh.Violate("node-deaf", "the node's TCP port no longer accepts connections: "+err.Error(), hostileWitness{Kind: "socket-stream", Input: in})
			return
		}
		_ = c.SetDeadline(time.Now().Add(2 * time.Second))
		_, _ = c.Write(in)
		if r.Intn(3) != 0 {
			buf := make([]byte, 4096)
			_, _ = c.Read(buf)
		}
		c.Close()
		if i%25 == 24 || i == streams-1 {
			msg := joinProbe()
			if msg == "" {
				msg = probe()
			}
			if msg != "" {
				sh.Violate("node-deaf", "after hostile streams over the real socket: "+msg, hostileWitness{Kind: "socket-stream", Input: in})
				return
			}
			sh.Count("socket_valid_exchanges_after_hostile", 1)
		}
	}
	_ = fmt.Sprint
}
