// Package codecheck decides C13: (1) codec sweep over every maximum packet
// size, (2) emission monitor inside the simulator, (3) hostile input to the
// packet and stream handlers.
package codecheck

import (
	"bytes"
	"fmt"
	"io"
	"math/rand"
	"net"
	"os"
	"path/filepath"
	"reflect"
	"runtime"
	"runtime/debug"
	"strings"
	"time"

	"github.com/ugorji/go/codec"

	"github.com/andydunstall/piko/pkg/gossip"

	"verif/harness/core"
	"verif/harness/gsim"
	"verif/harness/props"
)

// ---- generators -----------------------------------------------------------------

func randString(r *rand.Rand, max int) string {
	n := r.Intn(max + 1)
	switch r.Intn(6) {
	case 0:
		return ""
	case 1:
		var sb strings.Builder
		bits := []string{"é", "日本語", "🚀", "ß", "\u0000", " ", "a"}
		for sb.Len() < n {
			sb.WriteString(bits[r.Intn(len(bits))])
		}
		return sb.String()
	default:
		b := make([]byte, n)
		for i := range b {
			b[i] = byte(32 + r.Intn(95))
		}
		return string(b)
	}
}

func genDigest(r *rand.Rand) []gossip.VDigestEntry {
	n := r.Intn(7)
	if r.Intn(10) == 0 {
		n = 20 + r.Intn(60)
	}
	var d []gossip.VDigestEntry
	for i := 0; i < n; i++ {
		d = append(d, gossip.VDigestEntry{
			ID: randString(r, 40), Addr: fmt.Sprintf("10.%d.%d.%d:%d", r.Intn(256), r.Intn(256), r.Intn(256), r.Intn(65536)),
			Version: r.Uint64() >> uint(r.Intn(64)), Left: r.Intn(4) == 0,
		})
	}
	return d
}

func genDelta(r *rand.Rand, small bool) []gossip.VDeltaEntry {
	n := r.Intn(7)
	var d []gossip.VDeltaEntry
	for i := 0; i < n; i++ {
		de := gossip.VDeltaEntry{ID: randString(r, 30), Addr: fmt.Sprintf("10.0.0.%d:%d", r.Intn(256), r.Intn(65536))}
		m := r.Intn(41)
		maxLen := 400
		if small {
			m = r.Intn(6)
			maxLen = 40
		}
		v := uint64(r.Intn(5))
		for j := 0; j < m; j++ {
			v += 1 + uint64(r.Intn(3))
			e := gossip.Entry{Key: randString(r, maxLen/4), Value: randString(r, maxLen), Version: v,
				Internal: r.Intn(10) == 0, Deleted: r.Intn(5) == 0}
			if e.Deleted {
				e.Value = ""
			}
			de.Entries = append(de.Entries, e)
		}
		d = append(d, de)
	}
	return d
}

// boundaries decodes the unbounded encoding value by value, independently of
// piko's decoder, and returns the offset after each top-level msgpack value.
func boundaries(full []byte) ([]int, error) {
	var h codec.MsgpackHandle
	dec := codec.NewDecoderBytes(full[2:], &h)
	var out []int
	for {
		var v interface{}
		if err := dec.Decode(&v); err != nil {
			if err == io.EOF {
				return out, nil
			}
			return out, err
		}
		out = append(out, 2+dec.NumBytesRead())
		if 2+dec.NumBytesRead() >= len(full) {
			return out, nil
		}
	}
}

type sweepStats struct {
	pairs, truncated, headerTooSmall, messages int64
}

func sizesFor(full int, bounds []int, exhaustive bool) []int {
	hdr := bounds[0]
	var sizes []int
	if exhaustive {
		for m := hdr - 3; m <= full+1; m++ {
			if m >= 0 {
				sizes = append(sizes, m)
			}
		}
		return sizes
	}
	seen := map[int]bool{}
	add := func(m int) {
		if m >= 0 && !seen[m] {
			seen[m] = true
			sizes = append(sizes, m)
		}
	}
	add(0)
	add(1)
	add(2)
	for _, b := range bounds {
		add(b - 1)
		add(b)
		add(b + 1)
	}
	add(full + 1)
	return sizes
}

func checkDigestSweep(r *rand.Rand, st *sweepStats, exhaustiveLimit int) (string, string, any) {
	d := genDigest(r)
	id, addr, req := randString(r, 20), "127.0.0.1:7000", r.Intn(2) == 0
	full, err := gossip.VEncodeDigest(id, addr, req, d, 1<<30)
	if err != nil {
		return "encode-error", "unbounded digest encode failed: " + err.Error(), d
	}
	bounds, err := boundaries(full)
	if err != nil || len(bounds) != len(d)+1 {
		return "harness-boundaries", fmt.Sprintf("independent decode found %d values for %d entries (%v)", len(bounds), len(d), err), d
	}
	st.messages++
	exh := len(full) <= exhaustiveLimit
	for _, m := range sizesFor(len(full), bounds, exh) {
		st.pairs++
		out, err := gossip.VEncodeDigest(id, addr, req, d, m)
		if m < bounds[0] {
			st.headerTooSmall++
			if err == nil {
				return "no-error-below-header", fmt.Sprintf("max=%d is below the header size %d but encodeDigest returned %d bytes", m, bounds[0], len(out)), d
			}
			continue
		}
		if err != nil {
			return "encode-error", fmt.Sprintf("max=%d >= header %d but encodeDigest failed: %v", m, bounds[0], err), d
		}
		want, k := bounds[0], 0
		for i, b := range bounds[1:] {
			if b <= m {
				want, k = b, i+1
			}
		}
		if len(out) > m {
			return "oversize", fmt.Sprintf("digest of %d bytes for max=%d", len(out), m), d
		}
		if len(out) != want || !bytes.Equal(out, full[:want]) {
			return "not-maximal-prefix", fmt.Sprintf("max=%d: emitted %d bytes, the largest whole-entry prefix that fits is %d bytes (%d of %d entries)", m, len(out), want, k, len(d)), d
		}
		if k < len(d) {
			st.truncated++
		}
		gid, gaddr, greq, gd, err := gossip.VDecodeDigest(out)
		if err != nil {
			return "decode-error", fmt.Sprintf("max=%d: decoding the emitted digest failed: %v", m, err), d
		}
		if gid != id || gaddr != addr || greq != req || len(gd) != k || (k > 0 && !reflect.DeepEqual(gd, d[:k])) {
			return "not-a-prefix", fmt.Sprintf("max=%d: decoded %d entries which are not the first %d intended entries", m, len(gd), k), d
		}
	}
	return "", "", nil
}

func checkDeltaSweep(r *rand.Rand, st *sweepStats, exhaustiveLimit int) (string, string, any) {
	d := genDelta(r, r.Intn(2) == 0)
	id, addr := randString(r, 20), "127.0.0.1:7000"
	full, err := gossip.VEncodeDelta(id, addr, d, 1<<30)
	if err != nil {
		return "encode-error", "unbounded delta encode failed: " + err.Error(), d
	}
	bounds, err := boundaries(full)
	nvals := 1
	for _, de := range d {
		nvals += 1 + len(de.Entries)
	}
	if err != nil || len(bounds) != nvals {
		return "harness-boundaries", fmt.Sprintf("independent decode found %d values, expected %d (%v)", len(bounds), nvals, err), d
	}
	st.messages++
	exh := len(full) <= exhaustiveLimit
	for _, m := range sizesFor(len(full), bounds, exh) {
		st.pairs++
		out, err := gossip.VEncodeDelta(id, addr, d, m)
		if m < bounds[0] {
			st.headerTooSmall++
			if err == nil {
				return "no-error-below-header", fmt.Sprintf("max=%d is below the header size %d but encodeDelta returned %d bytes", m, bounds[0], len(out)), d
			}
			continue
		}
		if err != nil {
			return "encode-error", fmt.Sprintf("max=%d >= header %d but encodeDelta failed: %v", m, bounds[0], err), d
		}
		want, k := bounds[0], 0 // k = number of values after the header that fit
		for i, b := range bounds[1:] {
			if b <= m {
				want, k = b, i+1
			}
		}
		if len(out) > m {
			return "oversize", fmt.Sprintf("delta of %d bytes for max=%d", len(out), m), d
		}
		if len(out) != want || !bytes.Equal(out, full[:want]) {
			return "not-maximal-prefix", fmt.Sprintf("max=%d: emitted %d bytes, the largest whole-element prefix that fits is %d bytes", m, len(out), want), d
		}
		// expected element-wise prefix
		var exp []gossip.VDeltaEntry
		left := k
		for _, de := range d {
			if left == 0 {
				break
			}
			left--
			e := gossip.VDeltaEntry{ID: de.ID, Addr: de.Addr}
			for _, en := range de.Entries {
				if left == 0 {
					break
				}
				left--
				e.Entries = append(e.Entries, en)
			}
			exp = append(exp, e)
		}
		if k < nvals-1 {
			st.truncated++
		}
		gid, gaddr, gd, err := gossip.VDecodeDelta(out)
		if err != nil {
			return "decode-error", fmt.Sprintf("max=%d: decoding the emitted delta failed: %v", m, err), d
		}
		if gid != id || gaddr != addr || len(gd) != len(exp) {
			return "not-a-prefix", fmt.Sprintf("max=%d: decoded %d nodes, expected %d", m, len(gd), len(exp)), d
		}
		for i := range exp {
			if gd[i].ID != exp[i].ID || gd[i].Addr != exp[i].Addr || len(gd[i].Entries) != len(exp[i].Entries) {
				return "not-a-prefix", fmt.Sprintf("max=%d: node %d decodes to %d entries, expected %d", m, i, len(gd[i].Entries), len(exp[i].Entries)), d
			}
			for j := range exp[i].Entries {
				if gd[i].Entries[j] != exp[i].Entries[j] {
					return "not-a-prefix", fmt.Sprintf("max=%d: node %d entry %d differs", m, i, j), d
				}
			}
		}
	}
	return "", "", nil
}

// ---- hostile input ---------------------------------------------------------------

type captureConn struct{ n int }

func (c *captureConn) ReadFrom(p []byte) (int, net.Addr, error) { select {} }
func (c *captureConn) WriteTo(p []byte, _ net.Addr) (int, error) { c.n++; return len(p), nil }
func (c *captureConn) Close() error                              { return nil }
func (c *captureConn) LocalAddr() net.Addr                       { return &net.UDPAddr{} }
func (c *captureConn) SetDeadline(time.Time) error               { return nil }
func (c *captureConn) SetReadDeadline(time.Time) error           { return nil }
func (c *captureConn) SetWriteDeadline(time.Time) error          { return nil }

const victimID = "victim"
const victimAddr = "127.0.0.1:7001"

func newVictim(conn *captureConn, maxPacket int) *gossip.VNode {
	v := gossip.NewVNode(gossip.VNodeConfig{ID: victimID, Addr: victimAddr, MaxPacketSize: maxPacket,
		StreamTimeout: 300 * time.Millisecond, PacketConn: conn})
	v.UpsertLocal("proxy_addr", "10.0.0.1:8000")
	v.UpsertLocal("admin_addr", "10.0.0.1:8002")
	v.UpsertLocal("endpoint:a", "2")
	v.UpsertLocal("endpoint:b", "1")
	v.DeleteLocal("endpoint:b")
	v.ApplyDelta([]gossip.VDeltaEntry{{ID: "peer1", Addr: "127.0.0.1:7002", Entries: []gossip.Entry{
		{Key: "proxy_addr", Value: "10.0.0.2:8000", Version: 1}, {Key: "endpoint:x", Value: "1", Version: 2}}}})
	return v
}

func mpEnc(vs ...interface{}) []byte {
	var buf bytes.Buffer
	var h codec.MsgpackHandle
	enc := codec.NewEncoder(&buf, &h)
	for _, v := range vs {
		if err := enc.Encode(v); err != nil {
			panic("VERIF-HARNESS-ERROR msgpack encode: " + err.Error())
		}
	}
	return buf.Bytes()
}

type hdr struct {
	NodeID string `codec:"node_id"`
	Addr   string `codec:"addr"`
}

type wireDeltaEntry struct {
	ID      string         `codec:"id"`
	Addr    string         `codec:"addr"`
	Entries []gossip.Entry `codec:"entries"`
}

type wireDigestEntry struct {
	ID      string `codec:"id"`
	Addr    string `codec:"addr"`
	Version uint64 `codec:"version"`
	Left    bool
}

var badIDs = []string{"\xff\xfe", "ok\xc3", "\xed\xa0\x80", "", victimID, strings.Repeat("x", 3000), "a\x00b", "peer1"}

// seedPackets returns valid and crafted hostile datagrams.
func seedPackets(r *rand.Rand) [][]byte {
	var out [][]byte
	dg := []gossip.VDigestEntry{{ID: "peer1", Addr: "127.0.0.1:7002", Version: 1}, {ID: victimID, Addr: victimAddr, Version: 0},
		{ID: "peer9", Addr: "127.0.0.1:7009", Version: 7}}
	b, _ := gossip.VEncodeDigest("peer1", "127.0.0.1:7002", true, dg, 1400)
	out = append(out, b)
	b, _ = gossip.VEncodeDigest("peer1", "not-an-address", true, dg, 1400)
	out = append(out, b)
	b, _ = gossip.VEncodeDigest("peer1", "127.0.0.1:99999", false, dg, 1400)
	out = append(out, b)
	for _, id := range badIDs {
		b, _ = gossip.VEncodeDigest(id, "127.0.0.1:7002", r.Intn(2) == 0, []gossip.VDigestEntry{{ID: id, Addr: "127.0.0.1:7003", Version: uint64(r.Intn(3))}}, 1400)
		out = append(out, b)
		// deltas naming hostile ids, including the victim itself
		for _, entries := range [][]gossip.Entry{
			{{Key: "k", Value: "v", Version: 100}},
			{{Key: gossip.VLeftKey, Version: 1000, Internal: true}},
			{{Key: gossip.VCompactKey, Value: "999999", Version: 2000, Internal: true}},
			{{Key: gossip.VCompactKey, Value: "not-a-number", Version: 2001, Internal: true}, {Key: "after", Value: "x", Version: 2002}},
			{{Key: gossip.VCompactKey, Value: "-1", Version: 2003, Internal: true}},
			{{Key: "endpoint:a", Value: "", Version: 1<<63 + 5, Deleted: true}},
			{},
		} {
			b, _ = gossip.VEncodeDelta("peer1", "127.0.0.1:7002", []gossip.VDeltaEntry{{ID: id, Addr: "127.0.0.1:7003", Entries: entries}}, 1<<20)
			out = append(out, b)
		}
	}
	// garbage
	g := make([]byte, 65536)
	r.Read(g)
	g[0], g[1] = 1, 0
	out = append(out, append([]byte(nil), g...))
	g[0] = 2
	out = append(out, append([]byte(nil), g...))
	out = append(out, []byte{}, []byte{1}, []byte{2}, []byte{1, 0}, []byte{2, 0}, []byte{3, 0, 0}, []byte{1, 9, 0}, []byte{0, 0})
	// inflated length fields
	out = append(out, append([]byte{2, 0}, 0xdf, 0xff, 0xff, 0xff, 0xff)) // map32 with 4G pairs
	out = append(out, append([]byte{1, 0}, 0xdd, 0xff, 0xff, 0xff, 0xff)) // array32
	out = append(out, append([]byte{2, 0}, 0xdb, 0xff, 0xff, 0xff, 0xff, 'a'))
	out = append(out, append([]byte{2, 0}, mpEnc(hdr{NodeID: "p", Addr: "127.0.0.1:1"}, map[string]interface{}{"node_id": "q", "addr": "x", "entries": -5})...))
	out = append(out, append([]byte{2, 0}, mpEnc(hdr{NodeID: "p", Addr: "127.0.0.1:1"}, map[string]interface{}{"node_id": "q", "addr": "x", "entries": 1 << 40})...))
	out = append(out, append([]byte{2, 0}, mpEnc(hdr{NodeID: "p", Addr: "127.0.0.1:1"}, map[string]interface{}{"node_id": 5, "addr": []int{1}, "entries": "x"})...))
	out = append(out, append([]byte{2, 0}, mpEnc("just a string", 5, nil, []interface{}{1, 2})...))
	return out
}

func seedStreams(r *rand.Rand) [][]byte {
	var out [][]byte
	h := hdr{NodeID: "peer1", Addr: "127.0.0.1:7002"}
	d := []wireDeltaEntry{{ID: "peer1", Addr: "127.0.0.1:7002", Entries: []gossip.Entry{{Key: "k", Value: "v", Version: 5}}}}
	dg := []wireDigestEntry{{ID: "peer1", Addr: "127.0.0.1:7002", Version: 5}}
	out = append(out, append([]byte{3, 0}, mpEnc(h, d, dg)...))
	out = append(out, append([]byte{4, 0}, mpEnc(h, d)...))
	for _, id := range badIDs {
		dd := []wireDeltaEntry{{ID: id, Addr: "x", Entries: []gossip.Entry{{Key: gossip.VLeftKey, Version: 50, Internal: true}, {Key: "k", Value: "v", Version: 51}}}}
		out = append(out, append([]byte{3, 0}, mpEnc(hdr{NodeID: id, Addr: "x"}, dd, []wireDigestEntry{{ID: id, Addr: "y", Version: 1}})...))
		out = append(out, append([]byte{4, 0}, mpEnc(hdr{NodeID: id, Addr: "x"}, dd)...))
	}
	out = append(out, []byte{}, []byte{3}, []byte{3, 0}, []byte{4, 0}, []byte{3, 1, 0}, []byte{9, 0, 0}, []byte{1, 0, 0})
	out = append(out, append([]byte{3, 0}, 0xdf, 0xff, 0xff, 0xff, 0xff))
	out = append(out, append([]byte{3, 0}, append(mpEnc(h), 0xdd, 0xff, 0xff, 0xff, 0xff)...))
	out = append(out, append([]byte{4, 0}, append(mpEnc(h), 0xdb, 0x7f, 0xff, 0xff, 0xff)...))
	g := make([]byte, 70000)
	r.Read(g)
	g[0], g[1] = 3, 0
	out = append(out, g)
	return out
}

func mutate(r *rand.Rand, seeds [][]byte) []byte {
	s := append([]byte(nil), seeds[r.Intn(len(seeds))]...)
	if len(s) > 4096 {
		s = s[:4096]
	}
	if len(s) == 0 {
		return s
	}
	for n := 1 + r.Intn(3); n > 0; n-- {
		switch r.Intn(7) {
		case 0: // truncate
			s = s[:r.Intn(len(s)+1)]
		case 1: // byte substitution
			s[r.Intn(len(s))] = byte(r.Intn(256))
		case 2: // structural byte -> msgpack length/type marker
			marks := []byte{0xc0, 0xc1, 0xc4, 0xd9, 0xda, 0xdb, 0xdc, 0xdd, 0xde, 0xdf, 0x80, 0x90, 0xa0, 0xbf, 0xcf, 0xd3, 0xff, 0x00}
			s[r.Intn(len(s))] = marks[r.Intn(len(marks))]
		case 3: // splice with another seed
			o := seeds[r.Intn(len(seeds))]
			if len(o) > 0 {
				cut := r.Intn(len(s))
				oc := r.Intn(len(o))
				end := oc + 200
				if end > len(o) {
					end = len(o)
				}
				s = append(s[:cut], o[oc:end]...)
			}
		case 4: // bit flip
			i := r.Intn(len(s))
			s[i] ^= 1 << uint(r.Intn(8))
		case 5: // insert bytes
			i := r.Intn(len(s))
			ins := make([]byte, 1+r.Intn(4))
			r.Read(ins)
			s = append(s[:i], append(ins, s[i:]...)...)
		case 6: // non-utf8 injection into a string region
			i := r.Intn(len(s))
			s[i] = 0xff
		}
		if len(s) == 0 {
			return s
		}
	}
	return s
}

type hostileWitness struct {
	Kind  string `json:"kind"`
	Input []byte `json:"input"`
	Stall bool   `json:"stall,omitempty"`
}

func feedPacket(v *gossip.VNode, in []byte) (panicMsg string) {
	defer func() {
		if p := recover(); p != nil {
			panicMsg = fmt.Sprintf("%v\n%s", p, firstLines(string(debug.Stack()), 14))
		}
	}()
	_ = v.HandlePacket(in)
	return ""
}

func firstLines(s string, n int) string {
	l := strings.Split(s, "\n")
	if len(l) > n {
		l = l[:n]
	}
	return strings.Join(l, "\n")
}

// feedStream runs the real stream handler over net.Pipe. The client writes the
// input and then either closes or stalls. Returns panic message and elapsed.
func feedStream(v *gossip.VNode, in []byte, stall bool) (panicMsg string, elapsed time.Duration, returned bool) {
	client, server := net.Pipe()
	done := make(chan string, 1)
	start := time.Now()
	go func() {
		defer func() {
			if p := recover(); p != nil {
				done <- fmt.Sprintf("%v\n%s", p, firstLines(string(debug.Stack()), 14))
				return
			}
			done <- ""
		}()
		_ = v.HandleStream(server)
	}()
	go func() { _, _ = io.Copy(io.Discard, client) }()
	go func() {
		_ = client.SetWriteDeadline(time.Now().Add(3 * time.Second))
		_, _ = client.Write(in)
		if !stall {
			// half of the time close, otherwise leave the handler waiting for more
			_ = client.Close()
		}
	}()
	select {
	case msg := <-done:
		client.Close()
		return msg, time.Since(start), true
	case <-time.After(300*time.Millisecond + 20*time.Second):
		client.Close()
		return "", time.Since(start), false
	}
}

// handlerStack extracts the goroutines that are inside the gossip package.
func handlerStack(all string) string {
	var out []string
	for _, g := range strings.Split(all, "\n\n") {
		if strings.Contains(g, "pkg/gossip.") {
			out = append(out, firstLines(g, 24))
		}
	}
	return strings.Join(out, "\n\n")
}

func sameState(a, b *gossip.NodeState) bool {
	if a.ID != b.ID || a.Addr != b.Addr || a.Version != b.Version || a.Left != b.Left ||
		a.Unreachable != b.Unreachable || !a.Expiry.Equal(b.Expiry) || len(a.Entries) != len(b.Entries) {
		return false
	}
	for i := range a.Entries {
		if a.Entries[i] != b.Entries[i] {
			return false
		}
	}
	return true
}

// stillWorks runs a valid digest exchange and a valid join and checks the node
// still answers.
func stillWorks(v *gossip.VNode, conn *captureConn) string {
	before := conn.n
	b, _ := gossip.VEncodeDigest("probe", "127.0.0.1:7010", true, []gossip.VDigestEntry{{ID: "probe", Addr: "127.0.0.1:7010"}}, 1400)
	if msg := feedPacket(v, b); msg != "" {
		return "valid digest panicked: " + msg
	}
	if conn.n < before+2 {
		return fmt.Sprintf("valid digest request was answered with %d datagrams, expected a delta and a digest", conn.n-before)
	}
	// the health probe is not a timing test: the victim's 300 ms stream timeout
	// (kept short for the stalled-stream cases) would cut a large join response on
	// a loaded machine, so the probe runs with a generous one
	defer v.SetStreamTimeout(v.SetStreamTimeout(2 * time.Minute))
	client, server := net.Pipe()
	errc := make(chan error, 1)
	go func() { errc <- v.HandleStream(server) }()
	req := append([]byte{3, 0}, mpEnc(hdr{NodeID: "probe", Addr: "127.0.0.1:7010"},
		[]wireDeltaEntry{{ID: "probe", Addr: "127.0.0.1:7010", Entries: []gossip.Entry{{Key: "k", Value: "v", Version: 1}}}},
		[]wireDigestEntry{{ID: "probe", Addr: "127.0.0.1:7010", Version: 1}})...)
	go func() { _, _ = client.Write(req) }()
	_ = client.SetReadDeadline(time.Now().Add(2 * time.Minute))
	var h codec.MsgpackHandle
	dec := codec.NewDecoder(client, &h)
	var rh hdr
	if err := dec.Decode(&rh); err != nil {
		client.Close()
		return "valid join got no response header: " + err.Error()
	}
	var rd []wireDeltaEntry
	if err := dec.Decode(&rd); err != nil {
		client.Close()
		return "valid join got no response delta: " + err.Error()
	}
	client.Close()
	if rh.NodeID != victimID {
		return "join response names " + rh.NodeID
	}
	foundSelf := false
	for _, de := range rd {
		if de.ID == victimID && len(de.Entries) > 0 {
			foundSelf = true
		}
	}
	if !foundSelf {
		return "join response does not carry the node's own state"
	}
	<-errc
	return ""
}

func runHostile(sh *core.Shard, a props.Args, n int, streams int) {
	r := rand.New(rand.NewSource(a.CaseSeed(777_000 + a.Shard)))
	conn := &captureConn{}
	v := newVictim(conn, 1400)
	pseeds := seedPackets(r)
	sseeds := seedStreams(r)
	cur := filepath.Join(a.OutDir, "logs", "C13", fmt.Sprintf("current-input-%d.bin", a.Shard))
	f, _ := os.OpenFile(cur, os.O_CREATE|os.O_RDWR|os.O_TRUNC, 0o644)
	writeCur := func(kind byte, in []byte) {
		if f == nil {
			return
		}
		_ = f.Truncate(0)
		_, _ = f.WriteAt(append([]byte{kind}, in...), 0)
	}
	fmt.Printf("CASE C13 hostile shard=%d inputs=%d streams=%d current input is always in %s\n", a.Shard, n, streams, cur)
	own := v.LocalNode()
	check := func(kind string, in []byte, stall bool) bool {
		now := v.LocalNode()
		if !sameState(own, now) {
			sh.Violate("own-state-changed", fmt.Sprintf("hostile %s changed the node's own published state: before %v after %v", kind, own, now),
				hostileWitness{Kind: kind, Input: in, Stall: stall})
			own = now
			return false
		}
		return true
	}
	for i := 0; i < n; i++ {
		var in []byte
		if i < len(pseeds) {
			in = pseeds[i]
		} else {
			in = mutate(r, pseeds)
		}
		writeCur('P', in)
		sh.Eval()
		sh.Count("hostile_packets", 1)
		if msg := feedPacket(v, in); msg != "" {
			sig := "panic"
			if strings.Contains(msg, "not valid UTF-8") || strings.Contains(msg, "invalid UTF-8") {
				sig = "panic-non-utf8-node-id"
			}
			sh.Violate(sig, "packet handler panicked (the packet listener goroutine has no recover: the process would die): "+msg,
				hostileWitness{Kind: "packet", Input: in})
			// the state may hold its mutex forever after a panic under lock: rebuild
			conn = &captureConn{}
			v = newVictim(conn, 1400)
			own = v.LocalNode()
			continue
		}
		check("packet", in, false)
		if i%5000 == 4999 {
			if msg := stillWorks(v, conn); msg != "" {
				sh.Violate("node-wedged", "after hostile packets: "+msg, hostileWitness{Kind: "packet", Input: in})
				conn = &captureConn{}
				v = newVictim(conn, 1400)
			}
			own = v.LocalNode()
			sh.Count("valid_exchanges_after_hostile", 1)
			// keep the victim's remote table small: the join probe transfers the whole
			// state inside the 300 ms stream timeout this victim is configured with, and
			// a multi-megabyte response does not make it on a loaded machine
			if len(v.Nodes()) > 150 {
				conn = &captureConn{}
				v = newVictim(conn, 1400)
				own = v.LocalNode()
			}
		}
	}
	for i := 0; i < streams; i++ {
		var in []byte
		if i < len(sseeds) {
			in = sseeds[i]
		} else {
			in = mutate(r, sseeds)
		}
		stall := r.Intn(3) == 0
		writeCur('S', in)
		sh.Eval()
		sh.Count("hostile_streams", 1)
		msg, el, returned := feedStream(v, in, stall)
		if !returned {
			buf := make([]byte, 1<<20)
			buf = buf[:runtime.Stack(buf, true)]
			sh.Violate("stream-handler-hang", fmt.Sprintf("stream handler did not return within %v (stream timeout 300ms)\n%s", el, handlerStack(string(buf))), hostileWitness{Kind: "stream", Input: in, Stall: stall})
			conn = &captureConn{}
			v = newVictim(conn, 1400)
			own = v.LocalNode()
			continue
		}
		if msg != "" {
			sig := "panic"
			if strings.Contains(msg, "not valid UTF-8") {
				sig = "panic-non-utf8-node-id"
			}
			sh.Violate(sig, "stream handler panicked: "+msg, hostileWitness{Kind: "stream", Input: in, Stall: stall})
			conn = &captureConn{}
			v = newVictim(conn, 1400)
			own = v.LocalNode()
			continue
		}
		if stall {
			sh.Count("stalled_streams_timed_out", 1)
		}
		check("stream", in, stall)
		if i%200 == 199 {
			if msg := stillWorks(v, conn); msg != "" {
				sh.Violate("node-wedged", "after hostile streams: "+msg, hostileWitness{Kind: "stream", Input: in})
				conn = &captureConn{}
				v = newVictim(conn, 1400)
			}
			own = v.LocalNode()
			sh.Count("valid_exchanges_after_hostile", 1)
		}
	}
	if msg := stillWorks(v, conn); msg != "" {
		sh.Violate("node-wedged", "at the end of the hostile batch: "+msg, hostileWitness{Kind: "end"})
	}
	sh.Count("valid_exchanges_after_hostile", 1)
	if f != nil {
		f.Close()
		os.Remove(cur)
	}
}

// ---- emission workload (simulator) --------------------------------------------------

func runEmission(sh *core.Shard, a props.Args, runs, steps int) {
	for i := 0; i < runs; i++ {
		if !a.Mine(i) {
			continue
		}
		seed := a.CaseSeed(500_000 + i)
		r := rand.New(rand.NewSource(seed))
		sizes := []int{r.Intn(120), 48 + r.Intn(100), 100 + r.Intn(400), 500 + r.Intn(900)}
		cfg := gsim.Config{N: 2 + r.Intn(4), MaxPacketSize: sizes[r.Intn(len(sizes))], Streams: i%6 == 0, Seed: seed}
		fmt.Printf("CASE C13 emission run=%d cfg=%+v\n", i, cfg)
		s := gsim.New(cfg)
		s.EmitMons = append(s.EmitMons, &gsim.EmissionMonitor{Check: true})
		s.Bootstrap(true)
		p := &gsim.Profile{Upsert: 20, Delete: 8, Compact: 4, Gossip: 30, Deliver: 35, Drop: 4, Dup: 3, Join: 1,
			MaxVal: 120, Keys: 8}
		for s.Step < steps && !s.Failed() {
			if !s.RandomStep(p) {
				break
			}
		}
		sh.Eval()
		sh.Count("emission_runs", 1)
		for _, k := range []string{"datagrams_emitted", "digests_emitted", "deltas_emitted", "truncated_deltas", "truncated_digests"} {
			sh.Count(k, s.Stats[k])
		}
		if s.Stats["truncated_deltas"] > 0 {
			sh.Nontrivial(core.Hash("emission", cfg.N, cfg.MaxPacketSize, s.Stats["datagrams_emitted"], s.Stats["truncated_deltas"]))
		}
		if s.Failed() {
			f := s.Failures[0]
			sh.Violate(f.Sig, f.What, gsim.Witness{Prop: "C13", Cfg: s.Cfg, Variant: "emission", Failure: f, Trail: s.Trail})
		}
		s.Close()
	}
}

func run(sh *core.Shard, a props.Args) {
	// (1) codec sweep
	msgs := a.Pick(1600, 60000)
	st := &sweepStats{}
	for i := 0; i < msgs; i++ {
		if !a.Mine(i) {
			continue
		}
		seed := a.CaseSeed(i)
		r := rand.New(rand.NewSource(seed))
		if i%100 == 0 {
			fmt.Printf("CASE C13 sweep msg=%d seed=%d\n", i, seed)
		}
		var sig, what string
		var w any
		before := st.truncated
		limit := a.Pick(2500, 12000)
		if i%2 == 0 {
			sig, what, w = checkDigestSweep(r, st, limit)
		} else {
			sig, what, w = checkDeltaSweep(r, st, limit)
		}
		if i < 2 {
			sh.Sample(map[string]any{"kind": map[bool]string{true: "digest", false: "delta"}[i%2 == 0], "seed": seed, "sizes_tried": st.pairs})
		}
		if st.truncated > before {
			sh.Nontrivial(core.Hash("sweep", seed))
		}
		if sig != "" {
			if sig == "harness-boundaries" {
				panic("VERIF-HARNESS-ERROR " + what)
			}
			sh.Violate(sig, what, map[string]any{"kind": "sweep", "seed": seed, "message": w})
		}
	}
	sh.EvalN(st.pairs)
	sh.Count("sweep_messages", st.messages)
	sh.Count("sweep_message_size_pairs", st.pairs)
	sh.Count("sweep_truncated_outputs", st.truncated)
	sh.Count("sweep_below_header_sizes", st.headerTooSmall)
	// (2) emission monitor
	runEmission(sh, a, a.Pick(160, 6000), a.Pick(500, 1200))
	// (3) hostile input
	runHostile(sh, a, a.Pick(15000, 600000), a.Pick(120, 2500))
	// (3b) the same over real sockets, through the real Serve loops
	runSocketLeg(sh, a, a.Pick(600, 20000), a.Pick(50, 600))
}

func init() {
	props.Register(&props.Prop{
		ID: "C13", Level: "exploration", BoundedTime: true,
		Rule: "(1) codec sweep: generated digests/deltas (0-80 nodes, 0-40 entries, keys/values 0-400 bytes incl. unicode/empty/tombstones) encoded by the real encoder at every maxPacketSize from below the header to full length+1 (all sizes for messages up to the exhaustive limit, boundary-1/boundary/boundary+1 otherwise); element boundaries computed independently with a generic msgpack decode; oracle: error below header, length <= max, maximal whole-element prefix, decode(encode(x)) = element-wise prefix. (2) every datagram emitted in simulator runs (packet sizes from 0 upwards) is checked for size, decodability, ascending versions, newer-than-digest and no skipped entry. (3) hostile datagrams/streams (crafted seeds + mutations) fed to the real handlePacket / handleConn: no panic, returns within streamTimeout+20s, own state unchanged, a valid exchange still works afterwards. (3b) the same inputs plus the zero-length datagram sent over real loopback UDP/TCP sockets to a Gossip created with New() (the real Serve loops): after every batch a valid digest request is still answered with a delta and a valid join is answered. evaluations = (message,size) pairs + simulator runs + hostile inputs; non-trivial = a sweep message or simulator run in which truncation actually happened.",
		Assumptions: []string{
			"the packet handler is called synchronously as packetListener.Serve does; a panic there is recovered by the harness only to name the input - in piko it kills the process",
			"stream handler driven over net.Pipe with streamTimeout=300ms instead of 10s",
		},
		RequireCounters: []string{"sweep_truncated_outputs", "sweep_below_header_sizes", "truncated_deltas", "hostile_packets", "hostile_streams", "stalled_streams_timed_out", "valid_exchanges_after_hostile", "socket_hostile_datagrams", "socket_hostile_streams", "socket_valid_exchanges_after_hostile"},
		Timeout: func(t string) time.Duration {
			if t == "thorough" {
				return 90 * time.Minute
			}
			return 10 * time.Minute
		},
		Run: run,
	})
}
