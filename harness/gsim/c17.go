package gsim

import (
	"fmt"
	"math/rand"
	"net"
	"sort"
	"time"

	"github.com/andydunstall/piko/pkg/gossip"

	"verif/harness/core"
	"verif/harness/props"
)

// C17: own state is a last-write-wins map; compaction preserves live keys.
//
// Reference model: a map key -> (value | tombstone) plus the set of keys
// deleted since the last effective compaction.

type refState struct {
	live  map[string]string
	tombs map[string]bool
	left  bool
}

type c17Op struct {
	Kind string `json:"k"`
	Key  string `json:"key,omitempty"`
	Val  string `json:"val,omitempty"`
	Th   int    `json:"th,omitempty"`
}

func (o c17Op) String() string {
	switch o.Kind {
	case "upsert":
		return fmt.Sprintf("upsert(%q,%q)", o.Key, trunc(o.Val))
	case "delete":
		return fmt.Sprintf("delete(%q)", o.Key)
	case "compact":
		return fmt.Sprintf("compact(%d)", o.Th)
	}
	return o.Kind
}

func genC17Ops(r *rand.Rand, n int) []c17Op {
	keys := 2 + r.Intn(5)
	var ops []c17Op
	for len(ops) < n {
		switch x := r.Intn(100); {
		case x < 40:
			v := RandValue(r, 30)
			if r.Intn(5) == 0 {
				v = ""
			}
			ops = append(ops, c17Op{Kind: "upsert", Key: RandKey(r, keys), Val: v})
			if r.Intn(6) == 0 { // immediate repeat: a no-op write
				ops = append(ops, ops[len(ops)-1])
			}
		case x < 70:
			k := RandKey(r, keys)
			ops = append(ops, c17Op{Kind: "delete", Key: k})
			switch r.Intn(6) {
			case 0: // delete again
				ops = append(ops, c17Op{Kind: "delete", Key: k})
			case 1: // re-create, sometimes with the empty value
				v := ""
				if r.Intn(2) == 0 {
					v = RandValue(r, 10)
				}
				ops = append(ops, c17Op{Kind: "upsert", Key: k, Val: v})
			}
		case x < 90:
			ops = append(ops, c17Op{Kind: "compact", Th: 1 + r.Intn(3)})
			if r.Intn(5) == 0 {
				ops = append(ops, c17Op{Kind: "compact", Th: 1})
			}
		case x < 93:
			ops = append(ops, c17Op{Kind: "leave"})
		default:
			ops = append(ops, c17Op{Kind: "upsert", Key: RandKey(r, keys), Val: fmt.Sprint(r.Intn(3))})
		}
	}
	return ops
}

func newSoloNode() *gossip.VNode {
	return gossip.NewVNode(gossip.VNodeConfig{ID: "solo", Addr: "127.0.0.1:20000", MaxPacketSize: 1400,
		PacketConn: &discardConn{}})
}

// checkC17Seq runs one operation sequence against the real state and the
// reference; returns (signature, description) of the first disagreement.
func checkC17Seq(ops []c17Op, stats map[string]int64) (string, string) {
	v := newSoloNode()
	ref := refState{live: map[string]string{}, tombs: map[string]bool{}}
	prev := v.LocalNode()
	for i, op := range ops {
		effective := false
		compaction := false
		switch op.Kind {
		case "upsert":
			cur, isLive := ref.live[op.Key]
			effective = !isLive || cur != op.Val
			if effective && ref.tombs[op.Key] && op.Val == "" {
				stats["upsert_empty_after_delete"]++
			}
			ref.live[op.Key] = op.Val
			delete(ref.tombs, op.Key)
			v.UpsertLocal(op.Key, op.Val)
		case "delete":
			_, isLive := ref.live[op.Key]
			effective = isLive
			if isLive {
				delete(ref.live, op.Key)
				ref.tombs[op.Key] = true
			}
			v.DeleteLocal(op.Key)
		case "compact":
			if len(ref.tombs) >= op.Th {
				effective = true
				compaction = true
				ref.tombs = map[string]bool{}
				stats["effective_compactions"]++
			}
			v.CompactLocal(op.Th)
		case "leave":
			effective = !ref.left
			ref.left = true
			v.LeaveLocal()
		}
		if effective {
			stats["effective_ops"]++
		} else {
			stats["noop_ops"]++
		}
		cur := v.LocalNode()
		where := fmt.Sprintf("after op %d %s (sequence so far: %v)\n  state: %s", i, op, opsString(ops[:i+1]), stateString(cur))
		// --- live map and tombstones
		live := map[string]string{}
		tombs := map[string]bool{}
		versions := map[uint64]string{}
		var leftEntry, markers int
		for _, e := range cur.Entries {
			if other, dup := versions[e.Version]; dup {
				return "duplicate-version", fmt.Sprintf("entries %q and %q share version %d %s", other, e.Key, e.Version, where)
			}
			versions[e.Version] = e.Key
			if e.Version > cur.Version {
				return "entry-above-version", fmt.Sprintf("entry %q@%d above node version %d %s", e.Key, e.Version, cur.Version, where)
			}
			if e.Internal {
				if e.Key == gossip.VLeftKey {
					leftEntry++
				}
				if e.Key == gossip.VCompactKey {
					markers++
				}
				continue
			}
			if e.Deleted {
				tombs[e.Key] = true
			} else {
				live[e.Key] = e.Value
			}
		}
		if !sameKV(live, ref.live) {
			sig := "lww-mismatch"
			if compaction {
				sig = "compaction-changed-live-keys"
			}
			return sig, fmt.Sprintf("live keys are %s but last-write-wins gives %s %s", kvString(live), kvString(ref.live), where)
		}
		if len(tombs) != len(ref.tombs) {
			return "tombstone-mismatch", fmt.Sprintf("deletion markers %v, expected %v %s", keysOf(tombs), keysOf(ref.tombs), where)
		}
		for k := range tombs {
			if !ref.tombs[k] {
				return "tombstone-mismatch", fmt.Sprintf("deletion markers %v, expected %v %s", keysOf(tombs), keysOf(ref.tombs), where)
			}
		}
		if ref.left != cur.Left || (ref.left && leftEntry != 1) || (!ref.left && leftEntry != 0) {
			return "left-flag", fmt.Sprintf("left=%v with %d left entries, expected left=%v %s", cur.Left, leftEntry, ref.left, where)
		}
		if markers > 1 {
			return "two-markers", "more than one compaction marker " + where
		}
		// --- version discipline
		if effective {
			if cur.Version <= prev.Version {
				return "no-fresh-version", fmt.Sprintf("effective change did not get a larger version (%d -> %d) %s", prev.Version, cur.Version, where)
			}
			switch op.Kind {
			case "upsert", "delete":
				for _, e := range cur.Entries {
					if e.Key == op.Key && !e.Internal && e.Version <= prev.Version {
						return "no-fresh-version", fmt.Sprintf("changed key %q kept old version %d (node was at %d) %s", e.Key, e.Version, prev.Version, where)
					}
				}
			}
		} else if !sameNodeState(prev, cur) {
			return "noop-changed-state", fmt.Sprintf("no-op changed the state: before %s %s", stateString(prev), where)
		}
		prev = cur
	}
	return "", ""
}

func opsString(ops []c17Op) []string {
	out := make([]string, len(ops))
	for i, o := range ops {
		out[i] = o.String()
	}
	return out
}

func keysOf(m map[string]bool) []string {
	var ks []string
	for k := range m {
		ks = append(ks, k)
	}
	sort.Strings(ks)
	return ks
}

// checkC17Observers: an owner executes the sequence while a lagging observer
// synchronises at seeded points (with loss) and a fresh observer only at the
// end; both must end with the owner's live map.
func checkC17Observers(seed int64, ops []c17Op) (*Sim, string) {
	r := rand.New(rand.NewSource(seed))
	s := New(Config{N: 3, MaxPacketSize: 500 + r.Intn(900), Seed: seed}) // every single entry fits (F1 is C03's concern)
	s.EmitMons = append(s.EmitMons, &EmissionMonitor{})
	s.Introduce(1, 0)
	for _, op := range ops {
		switch op.Kind {
		case "upsert":
			s.Apply(Action{Kind: "upsert", Node: 0, Key: op.Key, Val: op.Val})
		case "delete":
			s.Apply(Action{Kind: "delete", Node: 0, Key: op.Key})
		case "compact":
			s.Apply(Action{Kind: "compact", Node: 0, Th: op.Th})
		case "leave":
			// leaving stops gossip in practice; not part of this sub-check
			continue
		}
		if r.Intn(4) == 0 {
			s.Apply(Action{Kind: "gossip", Node: 1, Peer: 0})
			for len(s.Inflight) > 0 {
				if r.Intn(5) == 0 {
					s.Drop(0)
				} else {
					s.Deliver(0, false)
				}
			}
		}
	}
	// the fresh observer arrives now; both synchronise until caught up
	s.Introduce(2, 0)
	owner := s.Nodes[0].V.LocalNode()
	for round := 0; round < 200; round++ {
		s.Exchange(1, 0)
		s.Exchange(2, 0)
		a, _ := s.Nodes[1].V.Node("n0")
		b, _ := s.Nodes[2].V.Node("n0")
		if a.Version == owner.Version && b.Version == owner.Version {
			break
		}
	}
	want := visibleKV(owner)
	for _, i := range []int{1, 2} {
		st, _ := s.Nodes[i].V.Node("n0")
		if st.Version != owner.Version {
			return s, fmt.Sprintf("observer n%d did not catch up within 200 loss-free exchanges: at %d, owner at %d", i, st.Version, owner.Version)
		}
		if got := visibleKV(st); !sameKV(got, want) {
			return s, fmt.Sprintf("observer n%d (%s) ends with %s but the owner's live state is %s\n  view: %s\n  owner: %s",
				i, map[int]string{1: "lagging", 2: "fresh"}[i], kvString(got), kvString(want), stateString(st), stateString(owner))
		}
	}
	return s, ""
}

type discardConn struct{ fakeConn }

func (c *discardConn) WriteTo(p []byte, _ net.Addr) (int, error) { return len(p), nil }

func runC17(sh *core.Shard, a props.Args) {
	if !runC17Concurrent(sh, a) {
		return
	}
	seqs := a.Pick(30000, 2000000)
	stats := map[string]int64{}
	for i := 0; i < seqs; i++ {
		if !a.Mine(i) {
			continue
		}
		seed := a.CaseSeed(i)
		r := rand.New(rand.NewSource(seed))
		ops := genC17Ops(r, 10+r.Intn(40))
		if i%2000 == 0 {
			fmt.Printf("CASE C17 seq=%d seed=%d\n", i, seed)
		}
		before := stats["effective_compactions"]
		sig, what := checkC17Seq(ops, stats)
		sh.Eval()
		if i < 2 {
			sh.Sample(map[string]any{"ops": opsString(ops)})
		}
		if stats["effective_compactions"] > before {
			sh.Nontrivial(core.Hash(opsString(ops)))
		}
		if sig != "" {
			if sig == "lww-mismatch" && isD2(ops, what) {
				sig = "upsert-empty-after-delete"
			}
			sh.Violate(sig, what, map[string]any{"prop": "C17", "kind": "sequence", "seed": seed, "ops": ops})
			continue
		}
		if i%8 == 0 {
			s, what := checkC17Observers(seed, ops)
			sh.Count("observer_syncs", 1)
			sh.Count("observer_deliveries", s.Stats["deliveries"])
			sh.Count("observer_truncated_deltas", s.Stats["truncated_deltas"])
			if what != "" {
				sh.Violate("observer-diverged", what, map[string]any{"prop": "C17", "kind": "observers", "seed": seed, "ops": ops})
			}
			s.Close()
		}
	}
	for k, v := range stats {
		sh.Count(k, v)
	}
}

// isD2 classifies the D2 pattern: the first disagreement is an empty-value
// upsert on a deleted key.
func isD2(ops []c17Op, what string) bool {
	tomb := map[string]bool{}
	live := map[string]string{}
	for _, op := range ops {
		switch op.Kind {
		case "upsert":
			if tomb[op.Key] && op.Val == "" {
				return true
			}
			delete(tomb, op.Key)
			live[op.Key] = op.Val
		case "delete":
			if _, ok := live[op.Key]; ok {
				delete(live, op.Key)
				tomb[op.Key] = true
			}
		case "compact":
			if len(tomb) >= op.Th {
				tomb = map[string]bool{}
			}
		}
		_ = what
	}
	return false
}

func init() {
	props.Register(&props.Prop{
		ID: "C17", Level: "exploration",
		Rule: "seeded operation sequences (10-50 ops over 2-6 keys: upsert incl. empty values and immediate repeats, delete incl. absent/already-deleted keys, delete-then-recreate, compact(1..3), repeated compaction, leave, compaction after leave) on the real clusterState against a last-write-wins reference; after every operation: live map, tombstone set, left flag, version discipline (fresh larger version on effective change, byte-identical state after a no-op, distinct versions). Every 8th sequence is also run on a 3-node simulator with a lagging (lossy) and a fresh observer. Concurrent leg: per round every key shows its only writer's last write, versions are distinct, and a fresh observer fed a full delta ends with the same live state. Non-trivial = the sequence contained an effective compaction; distinct = hash of the operation list.",
		Assumptions: []string{
			"keys under the reserved prefix _internal: are not used by callers",
			"the sequence legs run on a single goroutine; the concurrent leg (2-4 writers with disjoint keys plus a compactor released together, judged at quiescence) leaves the interleaving to the OS scheduler; data races are C20's concern",
		},
		RequireCounters: []string{"effective_compactions", "noop_ops", "observer_syncs", "upsert_empty_after_delete", "concurrent_rounds", "concurrent_versions_consumed"},
		Timeout:         simTimeout(10*time.Minute, 90*time.Minute),
		Run:             runC17,
	})
}
