package gsim

import (
	"fmt"

	"github.com/andydunstall/piko/pkg/gossip"
)

// ---- C02: no loss, fabrication or rollback ---------------------------------------

type C02Monitor struct {
	lastV    map[[2]int]uint64
	lastView map[[2]int]map[string]gossip.Entry
	// AllowReset: expiry is enabled in this run, so a view may disappear and
	// restart from zero (monotonicity is then per incarnation of the view).
	AllowReset bool
	// Tainted pairs (F3) are skipped when set by the C04/C03 taint tracker.
	Taint *TaintTracker
}

func NewC02Monitor() *C02Monitor {
	return &C02Monitor{lastV: map[[2]int]uint64{}, lastView: map[[2]int]map[string]gossip.Entry{}}
}

func (m *C02Monitor) AfterStep(s *Sim, a *Action) {
	for _, p := range s.Nodes {
		if !p.Started {
			continue
		}
		for _, o := range s.Nodes {
			if o.Idx == p.Idx || !o.Started {
				continue
			}
			pair := [2]int{p.Idx, o.Idx}
			st, ok := p.V.Node(o.ID)
			if !ok {
				delete(m.lastV, pair)
				delete(m.lastView, pair)
				continue
			}
			m.checkPair(s, a, p, o, pair, st)
		}
	}
}

func (m *C02Monitor) checkPair(s *Sim, a *Action, p, o *SimNode, pair [2]int, st *gossip.NodeState) {
	h := o.Hist
	v := st.Version
	tainted := m.Taint != nil && m.Taint.Tainted(p.Idx, o.Idx)
	fail := func(sig, format string, args ...any) {
		if tainted {
			s.Known["delta-base-ahead-of-view"]++
			return
		}
		s.Fail(sig, "step %d (%s): n%d's view of n%d: "+format+"\n  view:  %s\n  owner: %s", append([]any{s.Step, a.String(), p.Idx, o.Idx}, append(args, stateString(st), stateString(o.V.LocalNode()))...)...)
	}
	if prev, ok := m.lastV[pair]; ok && v < prev {
		fail("version-rollback", "reported version moved backwards %d -> %d", prev, v)
	}
	m.lastV[pair] = v
	if v > h.Version {
		fail("version-ahead", "reported version %d is ahead of the owner's version %d", v, h.Version)
	}
	view := make(map[string]gossip.Entry, len(st.Entries))
	for _, e := range st.Entries {
		view[e.Key] = e
		if !h.All[e] {
			fail("fabricated-entry", "entry %q=%q@%d (deleted=%v internal=%v) was never written by the owner", e.Key, trunc(e.Value), e.Version, e.Deleted, e.Internal)
		}
		if e.Version > v {
			fail("entry-above-version", "entry %q@%d is above the reported version %d", e.Key, e.Version, v)
		}
	}
	for key, l := range h.Latest {
		if l.Version > v {
			continue
		}
		got, has := view[key]
		if !l.Deleted {
			if !has || got != l {
				fail("lost-or-stale-entry", "claims version %d but key %q (latest write %q@%d) shows has=%v %q@%d deleted=%v", v, key, trunc(l.Value), l.Version, has, trunc(got.Value), got.Version, got.Deleted)
			}
			continue
		}
		// latest write is a deletion
		if !has || got == l {
			continue
		}
		cur, still := h.Current[key]
		compactedAway := !(still && cur == l)
		if compactedAway && h.HasMarker && v < h.MarkerVersion && got.Version < l.Version {
			s.Stats["stale_until_compaction_point"]++
			continue
		}
		fail("deleted-key-visible", "claims version %d but key %q deleted at %d still shows %q@%d (compactedAway=%v marker=%d)", v, key, l.Version, trunc(got.Value), got.Version, compactedAway, h.MarkerVersion)
	}
	if h.HasMarker && v >= h.MarkerVersion {
		for _, e := range st.Entries {
			if e.Version <= h.CompactPoint {
				fail("survived-compaction", "reached the compaction marker %d but still holds %q@%d <= compaction point %d", h.MarkerVersion, e.Key, e.Version, h.CompactPoint)
			}
		}
	}
	// observation statistics
	if prev, ok := m.lastView[pair]; ok && a.Kind == "deliver" && a.Node == p.Idx {
		for k, e := range prev {
			if !e.Deleted && !e.Internal {
				if _, has := view[k]; !has {
					s.Stats["deletes_learned_via_compaction"]++
				}
			}
		}
		if len(view) > 0 && a.Src != o.Idx {
			changed := len(prev) != len(view)
			if !changed {
				for k, e := range view {
					if prev[k] != e {
						changed = true
						break
					}
				}
			}
			if changed {
				s.Stats["relay_applications"]++
			}
		}
	}
	m.lastView[pair] = view
}

// ---- C14: watcher fold equals visible state ----------------------------------------

type C14Monitor struct{}

func (m *C14Monitor) AfterStep(s *Sim, a *Action) {
	for _, p := range s.Nodes {
		if !p.Started {
			continue
		}
		r := p.Rec
		if len(r.Bad) > 0 {
			s.Fail("watcher-protocol", "step %d (%s): n%d's watcher: %s\n  events: %v", s.Step, a.String(), p.Idx, r.Bad[0], tailStr(r.Log, 12))
			r.Bad = nil
		}
		metas := p.V.Nodes()
		seen := 0
		for _, meta := range metas {
			if meta.ID == p.ID {
				continue
			}
			seen++
			rn, ok := r.Nodes[meta.ID]
			if !ok {
				s.Fail("fold-missing-node", "step %d (%s): n%d knows %s but its watcher was never told (fold has %d nodes)\n  events: %v", s.Step, a.String(), p.Idx, meta.ID, len(r.Nodes), tailStr(r.Log, 12))
				continue
			}
			st, _ := p.V.Node(meta.ID)
			vis := visibleKV(st)
			if !sameKV(vis, rn.KV) {
				s.Fail("fold-kv-mismatch", "step %d (%s): n%d's view of %s is %s but folding the notifications gives %s\n  state: %s\n  events: %v", s.Step, a.String(), p.Idx, meta.ID, kvString(vis), kvString(rn.KV), stateString(st), tailStr(r.Log, 16))
			}
			if rn.Left != meta.Left || rn.Unreachable != meta.Unreachable {
				s.Fail("fold-flag-mismatch", "step %d (%s): n%d's view of %s has left=%v unreachable=%v but the notifications say left=%v unreachable=%v\n  events: %v", s.Step, a.String(), p.Idx, meta.ID, meta.Left, meta.Unreachable, rn.Left, rn.Unreachable, tailStr(r.Log, 12))
			}
		}
		if seen != len(r.Nodes) {
			s.Fail("fold-extra-node", "step %d (%s): n%d knows %d remote nodes but the notifications fold to %d\n  events: %v", s.Step, a.String(), p.Idx, seen, len(r.Nodes), tailStr(r.Log, 12))
		}
	}
}

func tailStr(l []string, n int) []string {
	if len(l) > n {
		return l[len(l)-n:]
	}
	return l
}

// ---- C13 (2): emission monitor -----------------------------------------------------

type EmissionMonitor struct {
	Check bool // report failures (C13) or only count
}

func (m *EmissionMonitor) OnEmit(s *Sim, d *Datagram, answering *Datagram) {
	fail := func(format string, a ...any) {
		if m.Check {
			s.Fail("bad-emission", "step %d: datagram dg%d emitted by n%d: "+format, append([]any{s.Step, d.ID, d.Src}, a...)...)
		}
	}
	if len(d.Bytes) > s.Cfg.MaxPacketSize {
		fail("%d bytes exceeds max packet size %d", len(d.Bytes), s.Cfg.MaxPacketSize)
	}
	if len(d.Bytes) < 2 {
		fail("shorter than the fixed header")
		return
	}
	src := s.Nodes[d.Src]
	switch d.Bytes[0] {
	case 1:
		id, _, _, dg, err := gossip.VDecodeDigest(d.Bytes)
		if err != nil {
			fail("digest does not decode: %v", err)
			return
		}
		if id != src.ID {
			fail("digest header names %q", id)
		}
		s.Stats["digests_emitted"]++
		known := len(src.V.Nodes())
		if len(dg) < known {
			s.Stats["truncated_digests"]++
		}
		seen := map[string]bool{}
		for _, e := range dg {
			if seen[e.ID] {
				fail("digest lists %s twice", e.ID)
			}
			seen[e.ID] = true
			st, ok := src.V.Node(e.ID)
			if !ok || st.Version != e.Version {
				fail("digest entry %s@%d does not match the sender's view", e.ID, e.Version)
			}
		}
	case 2:
		id, _, dl, err := gossip.VDecodeDelta(d.Bytes)
		if err != nil {
			fail("delta does not decode: %v", err)
			return
		}
		if id != src.ID {
			fail("delta header names %q", id)
		}
		s.Stats["deltas_emitted"]++
		var asked map[string]uint64
		if answering != nil && len(answering.Bytes) > 0 && answering.Bytes[0] == 1 {
			_, _, _, dg, err := gossip.VDecodeDigest(answering.Bytes)
			if err == nil {
				asked = map[string]uint64{}
				for _, e := range dg {
					asked[e.ID] = e.Version
				}
			}
		}
		inDelta := map[string]uint64{}
		for _, de := range dl {
			var last uint64
			st, known := src.V.Node(de.ID)
			var have map[gossip.Entry]bool
			if known {
				have = map[gossip.Entry]bool{}
				for _, e := range st.Entries {
					have[e] = true
				}
			} else {
				fail("delta carries node %s the sender does not know", de.ID)
			}
			for i, e := range de.Entries {
				if i > 0 && e.Version <= last {
					fail("delta entries of %s not strictly ascending: %d after %d", de.ID, e.Version, last)
				}
				last = e.Version
				if known && !have[e] {
					fail("delta entry %s/%q@%d is not in the sender's view", de.ID, e.Key, e.Version)
				}
				if asked != nil {
					if av, ok := asked[de.ID]; ok && e.Version <= av {
						fail("delta entry %s/%q@%d is not newer than the digest's version %d", de.ID, e.Key, e.Version, av)
					}
				}
			}
			// whole-prefix rule: entries sent for a node are exactly the
			// sender's entries in (asked, last]
			if known && asked != nil {
				from := asked[de.ID]
				n := 0
				for _, e := range st.Entries {
					if e.Version > from && e.Version <= last {
						n++
					}
				}
				if n != len(de.Entries) {
					fail("delta for %s skips entries: sent %d of the %d in (%d,%d]", de.ID, len(de.Entries), n, from, last)
				}
			}
			inDelta[de.ID] = last
		}
		if asked != nil {
			trunc := false
			for id, av := range asked {
				st, ok := src.V.Node(id)
				if !ok || st.Version <= av {
					continue
				}
				// sender has news for id
				hasNews := false
				for _, e := range st.Entries {
					if e.Version > av {
						hasNews = true
					}
				}
				if !hasNews {
					continue
				}
				if last, ok := inDelta[id]; !ok || last < st.Version {
					// is there really a later entry?
					for _, e := range st.Entries {
						if e.Version > av && (!ok || e.Version > last) {
							trunc = true
						}
					}
				}
			}
			if trunc {
				s.Stats["truncated_deltas"]++
			}
		}
	default:
		fail("unknown message type %d", d.Bytes[0])
	}
}

// describeTrail renders the last n actions for a witness.
func describeTrail(t []Action, n int) []string {
	if len(t) > n {
		t = t[len(t)-n:]
	}
	out := make([]string, len(t))
	for i, a := range t {
		out[i] = a.String()
	}
	return out
}

var _ = fmt.Sprintf
