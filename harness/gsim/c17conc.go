package gsim

import (
	"fmt"
	"math/rand"
	"runtime"
	"sync"

	"github.com/andydunstall/piko/pkg/gossip"

	"verif/harness/core"
	"verif/harness/props"
)

// Concurrent leg of C17. In a running node local writes come from the
// goroutines of the upstream connections (through the routing syncer) while the
// compaction ticker runs on its own goroutine. Per round 2-4 writers, each the
// only writer of its own keys, and one compactor are released together on one
// real clusterState; at quiescence every key must show its writer's last write
// (last-write-wins per key is well defined because each key has one writer),
// versions must be unique and not above the node version, and a fresh observer
// that synchronises afterwards must end with the same live state.

type c17ConcWitness struct {
	Prop    string    `json:"prop"`
	Kind    string    `json:"kind"`
	Seed    int64     `json:"seed"`
	Writers [][]c17Op `json:"writers"`
	Compact []int     `json:"compactions"`
	Sig     string    `json:"sig"`
	What    string    `json:"what"`
}

func c17ConcRound(seed int64) (sig, what string, w c17ConcWitness, effective int64) {
	r := rand.New(rand.NewSource(seed))
	v := newSoloNode()
	nw := 2 + r.Intn(3)
	w = c17ConcWitness{Prop: "C17", Kind: "concurrent", Seed: seed}
	final := map[string]*string{} // nil = deleted
	for i := 0; i < nw; i++ {
		// a little history, with tombstones, so that the first compaction already has work
		for k := 0; k < 3; k++ {
			key := fmt.Sprintf("w%d-k%d", i, k)
			v.UpsertLocal(key, "init")
			val := "init"
			final[key] = &val
		}
		v.DeleteLocal(fmt.Sprintf("w%d-k0", i))
		final[fmt.Sprintf("w%d-k0", i)] = nil
		var ops []c17Op
		for j := 0; j < 3+r.Intn(8); j++ {
			key := fmt.Sprintf("w%d-k%d", i, r.Intn(4))
			if r.Intn(3) == 0 {
				ops = append(ops, c17Op{Kind: "delete", Key: key})
				final[key] = nil
			} else {
				val := fmt.Sprintf("v%d", r.Intn(1000))
				if r.Intn(8) == 0 {
					val = ""
				}
				ops = append(ops, c17Op{Kind: "upsert", Key: key, Val: val})
				final[key] = &val
			}
		}
		w.Writers = append(w.Writers, ops)
	}
	for j := 0; j < 2+r.Intn(6); j++ {
		w.Compact = append(w.Compact, 1+r.Intn(2))
	}
	before := v.LocalNode().Version
	var wg sync.WaitGroup
	start := make(chan struct{})
	for _, ops := range w.Writers {
		wg.Add(1)
		go func(ops []c17Op) {
			defer wg.Done()
			<-start
			for i, op := range ops {
				if op.Kind == "upsert" {
					v.UpsertLocal(op.Key, op.Val)
				} else {
					v.DeleteLocal(op.Key)
				}
				if i%2 == 1 {
					runtime.Gosched()
				}
			}
		}(ops)
	}
	wg.Add(1)
	go func() {
		defer wg.Done()
		<-start
		for _, th := range w.Compact {
			v.CompactLocal(th)
			runtime.Gosched()
		}
	}()
	close(start)
	wg.Wait()

	cur := v.LocalNode()
	fail := func(s, format string, a ...any) {
		if sig == "" {
			sig, what = s, fmt.Sprintf(format, a...)+"\n  state: "+stateString(cur)
		}
	}
	versions := map[uint64]string{}
	seen := map[string]bool{}
	for _, e := range cur.Entries {
		if other, dup := versions[e.Version]; dup {
			fail("duplicate-version", "entries %q and %q share version %d", other, e.Key, e.Version)
		}
		versions[e.Version] = e.Key
		if e.Version > cur.Version {
			fail("entry-above-version", "entry %q@%d above node version %d", e.Key, e.Version, cur.Version)
		}
		if e.Internal {
			continue
		}
		seen[e.Key] = true
		want, known := final[e.Key]
		switch {
		case !known:
			fail("lww-mismatch", "key %q was never written", e.Key)
		case want == nil && !e.Deleted:
			fail("lww-mismatch", "key %q: its only writer's last operation was a delete, but it is live with value %q", e.Key, e.Value)
		case want != nil && e.Deleted:
			fail("lww-mismatch", "key %q: its only writer's last write was %q, but it is deleted", e.Key, *want)
		case want != nil && e.Value != *want:
			fail("lww-mismatch", "key %q: its only writer's last write was %q, but it shows %q", e.Key, *want, e.Value)
		}
	}
	for k, want := range final {
		if want != nil && !seen[k] {
			fail("lww-mismatch", "key %q: its only writer's last write was %q, but the key is missing", k, *want)
		}
	}
	if cur.Version <= before {
		fail("no-fresh-version", "node version did not grow (%d -> %d)", before, cur.Version)
	}
	// a fresh observer that synchronises afterwards
	obs := gossip.NewVNode(gossip.VNodeConfig{ID: "obs", Addr: "127.0.0.1:20001", MaxPacketSize: 1400, PacketConn: &discardConn{}})
	obs.ApplyDelta(v.Delta(nil, true))
	if st, ok := obs.Node("solo"); !ok {
		fail("observer-diverged", "a fresh observer learned nothing from a full delta")
	} else if got, want := visibleKV(st), visibleKV(cur); !sameKV(got, want) {
		fail("observer-diverged", "a fresh observer ends with %s but the owner's live state is %s", kvString(got), kvString(want))
	}
	return sig, what, w, int64(cur.Version - before)
}

func runC17Concurrent(sh *core.Shard, a props.Args) bool {
	rounds := a.Pick(60000, 3000000)
	for i := 0; i < rounds; i++ {
		if !a.Mine(i) {
			continue
		}
		seed := a.CaseSeed(5_000_000 + i)
		sig, what, w, versions := c17ConcRound(seed)
		sh.Count("concurrent_rounds", 1)
		sh.Count("concurrent_versions_consumed", versions)
		if sig != "" {
			fmt.Printf("CASE C17 concurrent round=%d seed=%d\n", i, seed)
			w.Sig, w.What = sig, what
			sh.Violate(sig, fmt.Sprintf("concurrent writers and compaction, round %d (%d writers, %d compactions): %s", i, len(w.Writers), len(w.Compact), what), w)
			return false
		}
	}
	return true
}

var _ = core.Hash
var _ props.Args
