package gsim

import (
	"encoding/json"
	"fmt"
	"math/rand"
	"sort"
	"strconv"
	"strings"
	"time"

	"github.com/andydunstall/piko/pkg/gossip"
	"github.com/andydunstall/piko/server/cluster"

	"verif/harness/core"
	"verif/harness/props"
)

// ---- C04: the routing table mirrors what each node advertises ------------------------
//
// Three rules, evaluated for every ordered pair (observer P, owner O) after
// every scheduler step, on nodes that carry the real cluster.State and the real
// syncer as their gossip watcher:
//
//  (i)  table == f(view): whenever P's gossip view of O shows proxy_addr and
//       admin_addr, P's routing table has O; whenever the table has O its
//       addresses are O's true (immutable) addresses and its endpoint counts
//       are exactly those of the view's live endpoint:* entries. This holds
//       whether or not P is caught up, so it is independent of F3. (The view
//       may transiently lack an address while the node is in the table, see
//       below; the converse - a view with both addresses and no table entry -
//       is a violation.)
//  (ii) caught up => table == owner: when the view's version equals O's
//       version, the table entry equals what O's own cluster state holds
//       (addresses, endpoint counts). Pairs tainted by F3 are known findings.
//  (iii) LookupEndpoint(e) returns only a non-local node that the table holds
//       as active with Endpoints[e] > 0 (and whose gossip flags are clear and
//       whose view advertises e), and returns one whenever such a node exists.
//
// A node that P learned as left while it was still pending is discarded by the
// syncer and never enters the table; that is harmless for routing (lookups skip
// left nodes) and not contradicted by the statement's second sentence, so for
// nodes flagged left the table entry may be absent; if present it must mirror.
type C04Monitor struct {
	Taint *TaintTracker
	prev  map[[2]int]map[string]int
}

func NewC04Monitor(t *TaintTracker) *C04Monitor {
	return &C04Monitor{Taint: t, prev: map[[2]int]map[string]int{}}
}

func viewRouting(st *gossip.NodeState) (proxy, admin string, eps map[string]int, bad string) {
	eps = map[string]int{}
	for _, e := range st.Entries {
		if e.Deleted || e.Internal {
			continue
		}
		switch {
		case e.Key == "proxy_addr":
			proxy = e.Value
		case e.Key == "admin_addr":
			admin = e.Value
		case strings.HasPrefix(e.Key, "endpoint:"):
			n, err := strconv.Atoi(e.Value)
			if err != nil {
				bad = e.Key + "=" + e.Value
				continue
			}
			eps[strings.TrimPrefix(e.Key, "endpoint:")] = n
		}
	}
	return
}

func epString(m map[string]int) string {
	ks := make([]string, 0, len(m))
	for k := range m {
		ks = append(ks, k)
	}
	sort.Strings(ks)
	s := "{"
	for _, k := range ks {
		s += fmt.Sprintf("%s:%d ", k, m[k])
	}
	return s + "}"
}

func sameEps(a, b map[string]int) bool {
	if len(a) != len(b) {
		return false
	}
	for k, v := range a {
		if w, ok := b[k]; !ok || w != v {
			return false
		}
	}
	return true
}

func (m *C04Monitor) AfterStep(s *Sim, a *Action) {
	for _, p := range s.Nodes {
		if !p.Started || p.Cluster == nil {
			continue
		}
		// the owner side: the local routing entry equals the published gossip entries
		{
			_, _, eps, _ := viewRouting(p.V.LocalNode())
			own := p.Cluster.LocalNode().Endpoints
			if !sameEps(eps, own) {
				s.Fail("publication-mismatch", "step %d (%s): n%d holds endpoints %s but publishes %s", s.Step, a.String(), p.Idx, epString(own), epString(eps))
			}
		}
		tableIDs := map[string]bool{}
		for _, cn := range p.Cluster.Nodes() {
			tableIDs[cn.ID] = true
		}
		for _, o := range s.Nodes {
			if o.Idx == p.Idx || !o.Started {
				continue
			}
			pair := [2]int{p.Idx, o.Idx}
			st, known := p.V.Node(o.ID)
			cn, inTable := p.Cluster.Node(o.ID)
			where := fmt.Sprintf("step %d (%s): n%d about n%d", s.Step, a.String(), p.Idx, o.Idx)
			if !known {
				if inTable {
					s.Fail("table-has-forgotten-node", "%s: gossip no longer knows the node but the routing table still lists it (%s, %s)", where, cn.Status, epString(cn.Endpoints))
				}
				delete(m.prev, pair)
				continue
			}
			proxy, admin, eps, bad := viewRouting(st)
			if bad != "" {
				continue
			}
			// ---- (i) table == f(view)
			complete := proxy != "" && admin != ""
			switch {
			case complete && !inTable:
				if !st.Left {
					s.Fail("node-missing-from-table", "%s: the view has both addresses but the routing table does not list the node\n  view: %s\n  pending: %v", where, stateString(st), p.Syncer.PendingIDs())
				} else {
					s.Stats["left_while_pending"]++
				}
			case inTable:
				// The view may transiently lack an address although the node is in the
				// table: a relay that is already past the owner's *next* re-versioning
				// hands over the previous compaction marker (which drops the old address
				// entries) before the re-versioned ones. The addresses are immutable, so
				// the table must simply hold the owner's true addresses, and agree with
				// the view wherever the view shows them.
				if !complete {
					s.Stats["in_table_while_view_lacks_address"]++
				}
				truth := o.Cluster.LocalNode()
				if cn.ProxyAddr != truth.ProxyAddr || cn.AdminAddr != truth.AdminAddr ||
					(proxy != "" && cn.ProxyAddr != proxy) || (admin != "" && cn.AdminAddr != admin) {
					s.Fail("address-mismatch", "%s: table has proxy=%q admin=%q, view has proxy=%q admin=%q, owner has %q %q", where, cn.ProxyAddr, cn.AdminAddr, proxy, admin, truth.ProxyAddr, truth.AdminAddr)
				}
				wantStatus := cluster.NodeStatusActive
				if st.Left {
					wantStatus = cluster.NodeStatusLeft
				} else if st.Unreachable {
					wantStatus = cluster.NodeStatusUnreachable
				}
				if cn.Status != wantStatus {
					s.Fail("status-mismatch", "%s: the routing table holds the node as %q but its membership flags say %q (left=%v unreachable=%v)", where, cn.Status, wantStatus, st.Left, st.Unreachable)
				}
				if !sameEps(cn.Endpoints, eps) {
					s.Fail("table-differs-from-view", "%s: routing table endpoints %s but the gossip view advertises %s\n  view: %s", where, epString(cn.Endpoints), epString(eps), stateString(st))
				}
				s.Stats["table_view_checks"]++
			default:
				s.Stats["pending_pair_steps"]++
				if len(eps) > 0 {
					s.Stats["endpoint_seen_while_pending"]++
				}
			}
			// ---- (ii) caught up => table == owner
			ov := o.V.LocalNode()
			if st.Version == ov.Version {
				s.Stats["caught_up_pair_steps"]++
				tainted := m.Taint != nil && m.Taint.Tainted(p.Idx, o.Idx)
				fail := func(sig, format string, args ...any) {
					if tainted {
						s.Known["delta-base-ahead-of-view"]++
						return
					}
					s.Fail(sig, "%s: "+format+"\n  view:  %s\n  owner: %s", append([]any{where}, append(args, stateString(st), stateString(ov))...)...)
				}
				truth := o.Cluster.LocalNode()
				if !inTable {
					if !st.Left {
						fail("caught-up-node-missing", "caught up at version %d but the routing table does not list the node (pending: %v)", st.Version, p.Syncer.PendingIDs())
					}
				} else {
					if cn.ProxyAddr != truth.ProxyAddr || cn.AdminAddr != truth.AdminAddr {
						fail("caught-up-address-mismatch", "caught up but table has proxy=%q admin=%q, owner has %q %q", cn.ProxyAddr, cn.AdminAddr, truth.ProxyAddr, truth.AdminAddr)
					}
					if !sameEps(cn.Endpoints, truth.Endpoints) {
						fail("caught-up-endpoints-mismatch", "caught up at version %d but table endpoints are %s and the owner serves %s", st.Version, epString(cn.Endpoints), epString(truth.Endpoints))
					}
					// observation statistics: withdrawn endpoints that vanished from the table
					if prev, ok := m.prev[pair]; ok {
						for e := range prev {
							if _, still := cn.Endpoints[e]; !still {
								s.Stats["withdrawals_observed"]++
							}
						}
					}
				}
			}
			if inTable {
				m.prev[pair] = cn.Endpoints
			}
		}
		// ---- (iii) lookups
		for e := 0; e < 6; e++ {
			id := "e" + strconv.Itoa(e)
			var qual []string
			for _, cn := range p.Cluster.Nodes() {
				if cn.ID != p.ID && cn.Status == cluster.NodeStatusActive && cn.Endpoints[id] > 0 {
					qual = append(qual, cn.ID)
				}
			}
			got, ok := p.Cluster.LookupEndpoint(id)
			s.Stats["lookups"]++
			if !ok {
				if len(qual) > 0 {
					s.Fail("lookup-missed", "step %d (%s): n%d.LookupEndpoint(%q) found nothing although %v are active and advertise it", s.Step, a.String(), p.Idx, id, qual)
				}
				continue
			}
			s.Stats["lookups_hit"]++
			if got.ID == p.ID {
				s.Fail("lookup-returned-local", "step %d (%s): n%d.LookupEndpoint(%q) returned the local node", s.Step, a.String(), p.Idx, id)
				continue
			}
			found := false
			for _, q := range qual {
				if q == got.ID {
					found = true
				}
			}
			if !found {
				s.Fail("lookup-invalid", "step %d (%s): n%d.LookupEndpoint(%q) returned %s (status %s, endpoints %s) which is not an active advertiser in the table (those are %v)", s.Step, a.String(), p.Idx, id, got.ID, got.Status, epString(got.Endpoints), qual)
				continue
			}
			st, known := p.V.Node(got.ID)
			if !known {
				s.Fail("lookup-unknown-to-gossip", "step %d (%s): n%d.LookupEndpoint(%q) returned %s which gossip does not know", s.Step, a.String(), p.Idx, id, got.ID)
				continue
			}
			if st.Left || st.Unreachable {
				s.Fail("lookup-non-active", "step %d (%s): n%d.LookupEndpoint(%q) returned %s which is flagged left=%v unreachable=%v", s.Step, a.String(), p.Idx, id, got.ID, st.Left, st.Unreachable)
			}
			_, _, eps, _ := viewRouting(st)
			if eps[id] <= 0 {
				s.Fail("lookup-not-advertised", "step %d (%s): n%d.LookupEndpoint(%q) returned %s whose view does not advertise it: %s", s.Step, a.String(), p.Idx, id, got.ID, epString(eps))
			}
		}
	}
}

func c04Profile() *Profile {
	return &Profile{EpAdd: 14, EpRemove: 10, Compact: 5, LeaveLocal: 1, MaxLeaves: 1,
		Gossip: 26, Deliver: 32, Drop: 6, Dup: 3, Join: 2, LeaveTo: 3,
		Tick: 6, Liveness: 6, SweepEarly: 1, SweepDue: 3, SweepLate: 1, SweepUpto: 1,
		Crash: 1, MaxCrashes: 1, Start: 1, Keys: 6}
}

func c04Monitors(s *Sim) {
	t := NewTaintTracker()
	s.Monitors = append(s.Monitors, t, NewC04Monitor(t))
	s.EmitMons = append(s.EmitMons, &EmissionMonitor{})
}

// f3Probe drives the recorded F3 scenario (a delta delayed across the
// receiver's expiry of the owner) so the known finding is re-observed, or its
// disappearance noticed, on every run.
func f3Probe(mons func(*Sim), routing bool) *Sim {
	cfg := Config{N: 3, MaxPacketSize: 1400, Routing: routing, Seed: 7}
	s := New(cfg)
	mons(s)
	s.Bootstrap(true)
	x, p := 0, 1
	if routing {
		s.Apply(Action{Kind: "epAdd", Node: x, Key: "e0"})
	} else {
		s.Apply(Action{Kind: "upsert", Node: x, Key: "k0", Val: "a"})
	}
	for k := 0; k < 2; k++ {
		for i := range s.Nodes {
			for j := range s.Nodes {
				if i != j {
					s.Exchange(i, j)
				}
			}
		}
	}
	// X writes more; P asks X for news, the answer is delayed
	if routing {
		s.Apply(Action{Kind: "epAdd", Node: x, Key: "e1"})
		s.Apply(Action{Kind: "epAdd", Node: x, Key: "e2"})
	} else {
		s.Apply(Action{Kind: "upsert", Node: x, Key: "k1", Val: "b"})
		s.Apply(Action{Kind: "upsert", Node: x, Key: "k2", Val: "c"})
	}
	s.Apply(Action{Kind: "gossip", Node: p, Peer: x})
	// deliver the digest request to X; keep X's delta answer in flight
	for i := 0; i < len(s.Inflight); i++ {
		if s.Inflight[i].Dst == x {
			s.Deliver(i, false)
			break
		}
	}
	var held []*Datagram
	for _, d := range s.Inflight {
		if d.Dst == p && d.IsDelta {
			held = append(held, d)
		}
	}
	s.Inflight = nil
	// P loses contact with X, flags it and expires it
	s.Apply(Action{Kind: "tick", Dt: 2500})
	s.Apply(Action{Kind: "liveness", Node: p})
	s.Apply(Action{Kind: "tick", Dt: ExpiryTicks + 10})
	s.Apply(Action{Kind: "sweep", Node: p, Mode: "due"})
	// the partition heals: the delayed delta arrives
	for _, d := range held {
		s.Inflight = append(s.Inflight, d)
	}
	for len(s.Inflight) > 0 {
		s.Deliver(0, false)
	}
	for k := 0; k < 6; k++ {
		s.Exchange(p, x)
		s.Exchange(x, p)
	}
	return s
}

// runRoutingConcurrent runs the concurrent routing leg for property prop.
func runRoutingConcurrent(sh *core.Shard, a props.Args, prop string, rounds int) bool {
	for i := 0; i < rounds; i++ {
		if !a.Mine(i) {
			continue
		}
		seed := a.CaseSeed(3_000_000 + i)
		sig, what, w, compared := RoutingConcRound(seed)
		sh.Count("concurrent_routing_rounds", 1)
		sh.Count("concurrent_routing_nodes_compared", compared)
		if sig != "" {
			fmt.Printf("CASE %s concurrent routing round=%d seed=%d\n", prop, i, seed)
			w.Prop = prop
			sh.Violate(sig, fmt.Sprintf("concurrent feeding of one node's gossip state, round %d (%d goroutines), at quiescence: %s", i, len(w.Scripts), what), w)
			return false
		}
	}
	return true
}

// RunRoutingConcurrent is the same leg for checks in other packages (C20).
func RunRoutingConcurrent(sh *core.Shard, a props.Args, prop string, rounds int) bool {
	return runRoutingConcurrent(sh, a, prop, rounds)
}

func runC04(sh *core.Shard, a props.Args) {
	if !runRoutingConcurrent(sh, a, "C04", a.Pick(30000, 1000000)) {
		return
	}
	runs := a.Pick(480, 16000)
	steps := a.Pick(600, 1400)
	if a.Shard == 0 {
		s := f3Probe(c04Monitors, true)
		addStats(sh, s)
		sh.Eval()
		if s.Known["delta-base-ahead-of-view"] == 0 {
			sh.Note("F3 probe: the delayed-delta-across-expiry scenario no longer leaves a gap (finding not re-observed)")
		}
		reportFailures(sh, "C04", s, "f3-probe")
		s.Close()
	}
	for i := 0; i < runs; i++ {
		if !a.Mine(i) {
			continue
		}
		seed := a.CaseSeed(i)
		r := rand.New(rand.NewSource(seed))
		n := 3 + r.Intn(2)
		if a.Thorough() {
			n = 2 + r.Intn(5)
		}
		cfg := Config{N: n, MaxPacketSize: 150 + r.Intn(1250), Streams: i%3 == 0, Routing: true, Seed: seed}
		if i%4 == 1 {
			cfg.LateStart = n - 1
		}
		variant := "full"
		p := c04Profile()
		if i%2 == 0 {
			// no expiry: no pair can be tainted by F3, the oracle has full strength
			variant = "no-expiry"
			p.SweepDue, p.SweepLate, p.SweepUpto = 0, 0, 0
		}
		fmt.Printf("CASE C04 run=%d variant=%s cfg=%+v\n", i, variant, cfg)
		s := New(cfg)
		c04Monitors(s)
		s.Bootstrap(r.Intn(2) == 0)
		for s.Step < steps && !s.Failed() {
			if !s.RandomStep(p) {
				break
			}
		}
		// closing sweeps so that caught-up states are certainly observed
		if !s.Failed() {
			for k := 0; k < 2; k++ {
				for _, x := range s.activeNodes() {
					for _, y := range s.activeNodes() {
						if x.Idx != y.Idx && s.Knows(x.Idx, y.Idx) && !s.Failed() {
							s.Exchange(x.Idx, y.Idx)
						}
					}
				}
			}
		}
		if variant == "no-expiry" && s.Known["delta-base-ahead-of-view"] > 0 {
			s.Fail("taint-without-expiry", "a pair was classified as F3-tainted in a run without expiry")
		}
		sh.Eval()
		addStats(sh, s)
		if i < 2 {
			sh.Sample(map[string]any{"variant": variant, "cfg": cfg, "stats": s.Stats, "last_actions": describeTrail(s.Trail, 20)})
		}
		if s.Stats["withdrawals_observed"] > 0 && s.Stats["endpoint_seen_while_pending"] > 0 && s.Stats["caught_up_pair_steps"] > 0 {
			sh.Nontrivial(core.Hash(variant, cfg.N, cfg.MaxPacketSize, s.Stats["withdrawals_observed"], s.Stats["caught_up_pair_steps"], s.Stats["lookups_hit"], s.Stats["expirations"], finalHash(s)))
		}
		reportFailures(sh, "C04", s, variant)
		s.Close()
	}
}

func init() {
	props.Register(&props.Prop{
		ID: "C04", Level: "exploration",
		Rule: "simulator runs in which every node carries the real cluster.State and the real syncer as gossip watcher; owners add/remove endpoints through cluster.State (so publication runs through the real subscriber), with compaction, leave, crash, logical-clock liveness, early/due/late sweeps, late-starting nodes, loss/dup/delay/truncation and stream join/leave. After every step, for every (observer, owner): (i) routing table entry == function of the gossip view (addresses, endpoint counts; pending iff an address is missing), (ii) view caught up with the owner => table entry == the owner's own endpoints and addresses (pairs tainted by known finding F3 are reported as KNOWN-FINDING; half of the runs have no expiry so no pair can be tainted), (iii) LookupEndpoint for every endpoint id returns only a non-local, active, advertising node and returns one whenever the table holds such a node; plus owner-side publication == local table. Non-trivial = a withdrawal observed at a caught-up observer, an endpoint seen while the node was pending, and caught-up pair-steps > 0; distinct = hash of (variant, config, counts, final states).",
		Assumptions: []string{
			"the simulator legs use a sequentially consistent scheduler; the concurrent leg (one observer with real gossip state, syncer and cluster.State fed digests/deltas of 3-5 mutually known owners from 3-5 goroutines together with liveness flips and expiry sweeps, owners adding/withdrawing endpoints, compacting and leaving meanwhile) is judged with rule (i) at quiescence only",
			"logical-clock failure detector and logical expiry as in C11",
			"a node learned as left while still pending may be absent from the table (harmless: lookups skip left nodes)",
		},
		RequireCounters: []string{"withdrawals_observed", "endpoint_seen_while_pending", "caught_up_pair_steps", "lookups_hit", "table_view_checks", "compactions", "truncated_deltas", "concurrent_routing_rounds", "concurrent_routing_nodes_compared"},
		Timeout:         simTimeout(10*time.Minute, 90*time.Minute),
		Run:             runC04,
		Replay: func(raw json.RawMessage) (string, bool) {
			var cw RouteConcWitness
			if json.Unmarshal(raw, &cw) == nil && cw.Kind == "routing-concurrent" {
				for i := 0; i < 20000; i++ {
					if sig, what, _, _ := RoutingConcRound(cw.Seed); sig != "" {
						return fmt.Sprintf("[%s] %s (repetition %d)", sig, what, i), true
					}
				}
				return "20000 repetitions of the round showed nothing; recorded: [" + cw.Sig + "] " + cw.What, false
			}
			return replayWith(c04Monitors)(raw)
		},
	})
}
