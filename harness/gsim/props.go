package gsim

import (
	"encoding/json"
	"fmt"
	"math/rand"
	"time"

	"verif/harness/core"
	"verif/harness/props"
)

// Witness is what a violation of an E1 property stores: enough to replay.
type Witness struct {
	Prop    string   `json:"prop"`
	Cfg     Config   `json:"cfg"`
	Variant string   `json:"variant,omitempty"`
	Failure Failure  `json:"failure"`
	Tail    []string `json:"tail"`
	Trail   []Action `json:"trail"`
}

func pickPacketSize(r *rand.Rand) int {
	switch r.Intn(10) {
	case 0:
		return 48 + r.Intn(60) // around the bare header: almost nothing fits
	case 1, 2, 3:
		return 100 + r.Intn(150)
	case 4, 5, 6:
		return 250 + r.Intn(350)
	default:
		return 600 + r.Intn(801)
	}
}

func addStats(sh *core.Shard, s *Sim) {
	for k, v := range s.Stats {
		sh.Count(k, v)
	}
	for k, v := range s.Known {
		for i := 0; i < v && i < 1; i++ {
			sh.KnownHit(k)
		}
		sh.Count("known_"+k+"_pair_steps", int64(v))
	}
	sh.Count("steps", int64(s.Step))
	var ev int64
	for _, n := range s.Nodes {
		if n.Rec != nil {
			ev += n.Rec.Events
			for k, v := range n.Rec.Kinds {
				sh.Count("watcher_"+k+"_events", v)
			}
		}
	}
	sh.Count("watcher_events", ev)
}

func reportFailures(sh *core.Shard, prop string, s *Sim, variant string) {
	if !s.Failed() {
		return
	}
	f := s.Failures[0]
	sh.Violate(f.Sig, f.What, Witness{Prop: prop, Cfg: s.Cfg, Variant: variant, Failure: f,
		Tail: describeTrail(s.Trail, 25), Trail: s.Trail})
}

func simTimeout(q, t time.Duration) func(string) time.Duration {
	return func(tier string) time.Duration {
		if tier == "thorough" {
			return t
		}
		return q
	}
}

// ---- C02 ----------------------------------------------------------------------

func c02Profile() *Profile {
	return &Profile{Upsert: 18, Delete: 8, Compact: 4, LeaveLocal: 1, MaxLeaves: 1,
		Gossip: 25, Deliver: 35, Drop: 6, Dup: 4, Join: 2, LeaveTo: 1, Forge: 2}
}

func c02Monitors(s *Sim) {
	s.Monitors = append(s.Monitors, NewC02Monitor())
	s.EmitMons = append(s.EmitMons, &EmissionMonitor{})
}

func runC02(sh *core.Shard, a props.Args) {
	runs := a.Pick(400, 24000)
	steps := a.Pick(600, 1500)
	for i := 0; i < runs; i++ {
		if !a.Mine(i) {
			continue
		}
		seed := a.CaseSeed(i)
		r := rand.New(rand.NewSource(seed))
		n := 3 + r.Intn(2)
		if a.Thorough() {
			n = 2 + r.Intn(5)
		}
		cfg := Config{N: n, MaxPacketSize: pickPacketSize(r), Streams: i%5 == 0, Seed: seed}
		fmt.Printf("CASE C02 run=%d cfg=%+v\n", i, cfg)
		s := New(cfg)
		c02Monitors(s)
		s.Bootstrap(r.Intn(3) == 0)
		p := c02Profile()
		if r.Intn(a.Pick(16, 128)) == 0 {
			// (drawn from the case's own generator, so these expensive runs spread
			// evenly over the shards)
			// a large state: one owner publishes 130-430 keys (some deleted again)
			// in one go, so that observers have hundreds of its entries pending
			bulk := 130 + r.Intn(300)
			owner := r.Intn(n)
			for k := 0; k < bulk && !s.Failed(); k++ {
				s.Apply(Action{Kind: "upsert", Node: owner, Key: fmt.Sprintf("bulk%03d", k), Val: fmt.Sprint(k % 7)})
				if k%9 == 4 {
					s.Apply(Action{Kind: "delete", Node: owner, Key: fmt.Sprintf("bulk%03d", k-2)})
				}
			}
			s.Stats["bulk_state_runs"]++
			steps += 400
		}
		for s.Step < steps && !s.Failed() {
			if !s.RandomStep(p) {
				break
			}
		}
		sh.Eval()
		addStats(sh, s)
		if i < 2 {
			sh.Sample(map[string]any{"cfg": cfg, "first_actions": describeTrail(s.Trail[:min(len(s.Trail), 40)], 40), "stats": s.Stats})
		}
		if s.Stats["truncated_deltas"] > 0 && s.Stats["relay_applications"] > 0 && s.Stats["deletes_learned_via_compaction"] > 0 {
			sh.Nontrivial(core.Hash(cfg.N, cfg.MaxPacketSize, s.Stats["deliveries"], s.Stats["truncated_deltas"], s.Stats["relay_applications"], s.Stats["compactions"], finalHash(s)))
		}
		reportFailures(sh, "C02", s, "")
		s.Close()
	}
}

func finalHash(s *Sim) uint64 {
	var parts []any
	for _, n := range s.Nodes {
		if n.Started {
			parts = append(parts, stateString(n.V.LocalNode()))
		}
	}
	return core.Hash(parts...)
}

func replayWith(mons func(*Sim)) func(json.RawMessage) (string, bool) {
	return func(raw json.RawMessage) (string, bool) {
		var w Witness
		if err := json.Unmarshal(raw, &w); err != nil {
			return "bad witness: " + err.Error(), false
		}
		s := Replay(w.Cfg, w.Trail, mons)
		defer s.Close()
		if s.Failed() {
			return fmt.Sprintf("[%s] %s", s.Failures[0].Sig, s.Failures[0].What), true
		}
		return fmt.Sprintf("replayed %d actions", len(w.Trail)), false
	}
}

func init() {
	props.Register(&props.Prop{
		ID: "C02", Level: "exploration",
		Rule: "seeded simulator runs of the real pkg/gossip code (N nodes, random local upserts/deletes/compactions/leave, gossip rounds, deliver/drop/duplicate/delay of any in-flight datagram, stream join/leave, packet size drawn per run; one run in 16 (thorough: in 128) starts with one owner publishing 130-430 keys at once so that observers have hundreds of its entries pending); oracle after every step over all (observer, owner) pairs: authenticity, completeness-at-version, monotone version, own state unchanged. A run is non-trivial when it contained >=1 truncated delta, >=1 relay application and >=1 delete learned only through a compaction marker; distinct = hash of (config, event counts, final states).",
		Assumptions: []string{
			"sequentially consistent scheduler: one action at a time (true concurrency is C20's job)",
			"expiry and liveness are disabled, as in the property's quantifier",
			"datagram contents are never corrupted on honest paths (hostile input is C13)",
		},
		RequireCounters: []string{"truncated_deltas", "relay_applications", "deletes_learned_via_compaction", "duplicates", "delayed_deliveries", "compactions", "forged_self_deltas", "bulk_state_runs"},
		Timeout:         simTimeout(10*time.Minute, 90*time.Minute),
		Run:             runC02,
		Replay:          replayWith(c02Monitors),
	})
}
