package gsim

import (
	"fmt"
	"math/rand"
	"time"

	"github.com/andydunstall/piko/pkg/gossip"
	"github.com/andydunstall/piko/server/cluster"

	"verif/harness/core"
	"verif/harness/props"
)

// ---- C11: membership lifecycle ------------------------------------------------------

// C11Monitor checks the per-step membership rules on every survivor.
type C11Monitor struct {
	prevKnown map[int]map[string]gossip.NodeMetadata
	ever      map[[2]string]bool
	// Taint classifies views that suffer from known finding F3 (a delta delayed
	// across the receiver's expiry of the owner is applied to the re-created
	// view, which then reports a version without holding the older entries -
	// here: without the left marker)
	Taint *TaintTracker
}

func NewC11Monitor() *C11Monitor { return &C11Monitor{prevKnown: map[int]map[string]gossip.NodeMetadata{}, ever: map[[2]string]bool{}} }

func (m *C11Monitor) AfterStep(s *Sim, a *Action) {
	for _, p := range s.Nodes {
		if !p.Started {
			continue
		}
		prev := m.prevKnown[p.Idx]
		cur := map[string]gossip.NodeMetadata{}
		metas := p.V.Nodes()
		sawLocal := false
		for _, meta := range metas {
			cur[meta.ID] = meta
			if meta.ID == p.ID {
				sawLocal = true
				if meta.Unreachable || !meta.Expiry.IsZero() {
					s.Fail("local-node-flagged", "step %d (%s): n%d's own node is flagged unreachable=%v expiry=%v", s.Step, a.String(), p.Idx, meta.Unreachable, meta.Expiry)
				}
				if meta.Left != p.Left {
					s.Fail("local-left-forged", "step %d (%s): n%d's own left flag is %v but it %s", s.Step, a.String(), p.Idx, meta.Left, map[bool]string{true: "did leave", false: "never declared itself left"}[p.Left])
				}
				continue
			}
			x := s.nodeByID(meta.ID)
			if x == nil {
				continue
			}
			where := fmt.Sprintf("step %d (%s): n%d's view of %s (left=%v unreachable=%v expiry-set=%v)", s.Step, a.String(), p.Idx, meta.ID, meta.Left, meta.Unreachable, !meta.Expiry.IsZero())
			if meta.Left && !x.Left {
				s.Fail("left-fabricated", "%s: flagged left although %s never left", where, meta.ID)
			}
			if x.Left && !meta.Left {
				// "seen as left by every node that learns of it": a view that has
				// reached the version at which the owner currently holds its left
				// marker (compaction re-versions it) must show the node as left; if
				// the owner no longer holds the marker at all, a view that is fully
				// caught up can never learn it.
				own := x.V.LocalNode()
				var lv uint64
				for _, e := range own.Entries {
					if e.Internal && e.Key == "_internal:left" {
						lv = e.Version
					}
				}
				if lv == 0 && meta.Version >= own.Version {
					s.Fail("left-marker-lost", "%s: %s declared itself left but its own state (version %d) no longer carries the left marker, and this view is caught up with it (version %d) without knowing it left", where, meta.ID, own.Version, meta.Version)
				} else if lv != 0 && meta.Version >= lv && m.Taint != nil && m.Taint.Tainted(p.Idx, x.Idx) {
					s.Known["delta-base-ahead-of-view"]++
				} else if lv != 0 && meta.Version >= lv {
					s.Fail("left-unseen", "%s: the view is at version %d, past the owner's left marker (version %d), but does not show the node as left", where, meta.Version, lv)
				}
				s.Stats["left_marker_checks"]++
			}
			if pm, ok := prev[meta.ID]; ok && pm.Left && !meta.Left {
				s.Fail("left-node-revived", "%s: was left, is live again without having been forgotten in between", where)
			}
			// a left or unreachable node is scheduled for removal; a live one is not
			if (meta.Left || meta.Unreachable) && meta.Expiry.IsZero() {
				s.Fail("flagged-node-never-expires", "%s: flagged but no expiry is scheduled, so it is never forgotten", where)
			}
			if !meta.Left && !meta.Unreachable && !meta.Expiry.IsZero() {
				s.Fail("live-node-expires", "%s: live node scheduled for removal", where)
			}
			if meta.Left || meta.Unreachable {
				for _, l := range p.V.LiveNodes() {
					if l.ID == meta.ID {
						s.Fail("flagged-node-live", "%s: still in the live set", where)
					}
				}
			}
			if p.Cluster != nil {
				if cn, ok := p.Cluster.Node(meta.ID); ok {
					want := cluster.NodeStatusActive
					if meta.Left {
						want = cluster.NodeStatusLeft
					} else if meta.Unreachable {
						want = cluster.NodeStatusUnreachable
					}
					if cn.Status != want {
						s.Fail("routing-status-mismatch", "%s: routing table says %q, expected %q", where, cn.Status, want)
					}
				}
			}
		}
		if !sawLocal {
			s.Fail("local-node-removed", "step %d (%s): n%d no longer lists itself", s.Step, a.String(), p.Idx)
		}
		// action-specific rules
		if a.Node == p.Idx {
			switch a.Kind {
			case "deliver":
				if len(a.Bytes) > 0 && a.Bytes[0] == 1 {
					if _, _, _, dg, err := gossip.VDecodeDigest(a.Bytes); err == nil {
						for _, e := range dg {
							if _, knew := prev[e.ID]; !knew && e.Left {
								if _, now := cur[e.ID]; now {
									s.Fail("relearned-left-node", "step %d (%s): n%d discovered %s from a digest that marks it as left", s.Step, a.String(), p.Idx, e.ID)
								}
							}
						}
					}
				}
			case "liveness":
				for _, meta := range metas {
					if meta.ID == p.ID || meta.Left {
						continue
					}
					susp := p.FD.SuspicionLevel(meta.ID) > float64(gossip.VSuspicionThreshold)
					if susp != meta.Unreachable {
						s.Fail("liveness-flag", "step %d (%s): n%d evaluated liveness: %s has suspicion>threshold=%v but unreachable=%v", s.Step, a.String(), p.Idx, meta.ID, susp, meta.Unreachable)
					}
					if pm, ok := prev[meta.ID]; ok {
						if pm.Unreachable && !meta.Unreachable {
							s.Stats["recoveries"]++
						}
						if !pm.Unreachable && meta.Unreachable {
							s.Stats["unreachable_marks"]++
						}
					}
				}
			case "sweep":
				for id, pm := range prev {
					_, still := cur[id]
					switch a.Mode {
					case "early":
						if !still {
							s.Fail("expired-early", "step %d (%s): n%d removed %s before its expiry", s.Step, a.String(), p.Idx, id)
						}
					case "late":
						if still && !pm.Expiry.IsZero() {
							s.Fail("not-forgotten", "step %d (%s): n%d still knows %s (left=%v unreachable=%v) after its expiry period", s.Step, a.String(), p.Idx, id, pm.Left, pm.Unreachable)
						}
						if !still && pm.Expiry.IsZero() {
							s.Fail("live-node-forgotten", "step %d (%s): n%d removed %s which was neither left nor unreachable", s.Step, a.String(), p.Idx, id)
						}
					default:
						if !still && pm.Expiry.IsZero() {
							s.Fail("live-node-forgotten", "step %d (%s): n%d removed %s which was neither left nor unreachable", s.Step, a.String(), p.Idx, id)
						}
					}
					if !still {
						s.Stats["expirations"]++
					}
				}
			}
		}
		if prev != nil {
			for id := range cur {
				if _, ok := prev[id]; !ok {
					s.Stats["discoveries"]++
					if x := s.nodeByID(id); x != nil && m.everKnown(p.Idx, id) {
						s.Stats["rediscoveries"]++
					}
				}
			}
		}
		m.remember(p.Idx, cur)
		m.prevKnown[p.Idx] = cur
	}
}

func (m *C11Monitor) everKnown(p int, id string) bool { return m.ever[[2]string{fmt.Sprint(p), id}] }

func (m *C11Monitor) remember(p int, cur map[string]gossip.NodeMetadata) {
	for id := range cur {
		m.ever[[2]string{fmt.Sprint(p), id}] = true
	}
}

func (s *Sim) nodeByID(id string) *SimNode {
	for _, n := range s.Nodes {
		if n.ID == id {
			return n
		}
	}
	return nil
}

func fullProfile() *Profile {
	return &Profile{Upsert: 12, Delete: 6, Compact: 3, LeaveLocal: 1, MaxLeaves: 1,
		Gossip: 26, Deliver: 32, Drop: 5, Dup: 3, Join: 2, LeaveTo: 3,
		Tick: 7, Liveness: 7, SweepEarly: 1, SweepDue: 3, SweepLate: 1, SweepUpto: 1,
		Crash: 1, MaxCrashes: 1, Start: 1, Forge: 1}
}

func c11Monitors(s *Sim) {
	t := NewTaintTracker()
	mon := NewC11Monitor()
	mon.Taint = t
	s.Monitors = append(s.Monitors, t, mon)
	s.EmitMons = append(s.EmitMons, &EmissionMonitor{})
}

// closure runs the bounded restatement of "is forgotten and stays forgotten":
// survivors keep ticking, evaluating liveness, sweeping what is due and
// gossiping (lossy) among themselves; X must be absent from every survivor by
// the deadline and stay absent afterwards.
func closure(s *Sim, r *rand.Rand, x int, kind string) {
	var surv []*SimNode
	for _, n := range s.Nodes {
		if n.Started && n.Alive && n.Idx != x && !n.Left {
			surv = append(surv, n)
		}
	}
	if len(surv) == 0 {
		return
	}
	start := s.Clock
	// every survivor that knows X flags it within (hops+1) detection periods
	// and forgets it one expiry period later; skew comes from the seeded ticks.
	deadline := start + ExpiryTicks + 2000*int64(len(s.Nodes)+3) + 3000
	observe := deadline + 2*ExpiryTicks
	absentSince := int64(-1)
	for s.Clock < observe && !s.Failed() {
		s.Apply(Action{Kind: "tick", Dt: int64(100 + r.Intn(1400))})
		r.Shuffle(len(surv), func(i, j int) { surv[i], surv[j] = surv[j], surv[i] })
		for _, p := range surv {
			s.Apply(Action{Kind: "liveness", Node: p.Idx})
			if r.Intn(3) != 0 {
				s.Apply(Action{Kind: "sweep", Node: p.Idx, Mode: "due"})
			}
		}
		// a few gossip rounds, as the real scheduler would run between ticks
		for k := 0; k < len(surv); k++ {
			p := surv[r.Intn(len(surv))]
			// the real round: one live peer and one unreachable peer
			var cands []int
			for _, m := range p.V.Nodes() {
				if m.ID == p.ID || (m.Left && !m.Unreachable) {
					continue
				}
				if q := s.nodeByID(m.ID); q != nil {
					cands = append(cands, q.Idx)
				}
			}
			if len(cands) == 0 {
				continue
			}
			s.Apply(Action{Kind: "gossip", Node: p.Idx, Peer: cands[r.Intn(len(cands))]})
			for len(s.Inflight) > 0 {
				if r.Intn(12) == 0 {
					s.Drop(0)
				} else {
					s.Deliver(0, false)
				}
			}
		}
		present := 0
		for _, p := range surv {
			if _, ok := p.V.Node(s.Nodes[x].ID); ok {
				present++
			}
		}
		if present == 0 {
			if absentSince < 0 {
				absentSince = s.Clock
				s.Stats["closure_forgotten"]++
			}
		} else {
			if absentSince >= 0 {
				s.Fail("relearn-after-expiry", "%s node n%d had been forgotten by every survivor at logical time %d but is known again to %d of them at %d (it never came back)", kind, x, absentSince-start, present, s.Clock-start)
				return
			}
			if s.Clock > deadline {
				s.Fail("relearn-after-expiry", "%s node n%d is still known to %d of %d survivors %d ticks after it went away (expiry period %d, detection 2000): it is never forgotten", kind, x, present, len(surv), s.Clock-start, ExpiryTicks)
				return
			}
		}
	}
}

func runC11(sh *core.Shard, a props.Args) {
	runs := a.Pick(320, 12000)
	steps := a.Pick(500, 1200)
	for i := 0; i < runs; i++ {
		if !a.Mine(i) {
			continue
		}
		seed := a.CaseSeed(i)
		r := rand.New(rand.NewSource(seed))
		n := 3 + r.Intn(2)
		if a.Thorough() {
			n = 3 + r.Intn(4)
		}
		cfg := Config{N: n, MaxPacketSize: 300 + r.Intn(1100), Streams: i%2 == 0, Routing: i%3 == 0, Seed: seed}
		variant := []string{"random", "crash-closure", "leave-closure"}[i%3]
		fmt.Printf("CASE C11 run=%d variant=%s cfg=%+v\n", i, variant, cfg)
		s := New(cfg)
		taint := NewTaintTracker()
		mon := NewC11Monitor()
		mon.Taint = taint
		s.Monitors = append(s.Monitors, taint, mon)
		s.EmitMons = append(s.EmitMons, &EmissionMonitor{})
		s.Bootstrap(true)
		p := fullProfile()
		switch variant {
		case "random":
			for s.Step < steps && !s.Failed() {
				if !s.RandomStep(p) {
					break
				}
			}
		case "crash-closure", "leave-closure":
			// a warm-up without faults so that everybody knows everybody
			p.Crash, p.LeaveLocal, p.LeaveTo, p.SweepLate, p.SweepUpto = 0, 0, 0, 0, 0
			for s.Step < steps/3 && !s.Failed() {
				s.RandomStep(p)
			}
			for k := 0; k < 3; k++ {
				for i := range s.Nodes {
					for j := range s.Nodes {
						if i != j && s.Knows(i, j) {
							s.Exchange(i, j)
						}
					}
				}
			}
			x := r.Intn(n)
			if variant == "crash-closure" {
				// in-flight datagrams of the victim are delivered or dropped first
				for len(s.Inflight) > 0 {
					if r.Intn(2) == 0 {
						s.Deliver(0, false)
					} else {
						s.Drop(0)
					}
				}
				s.Apply(Action{Kind: "crash", Node: x})
			} else {
				s.Apply(Action{Kind: "leaveLocal", Node: x})
				// notify a seeded subset over the leave stream (or none: the rest learn by gossip)
				notified := 0
				for j := range s.Nodes {
					if j != x && cfg.Streams && r.Intn(2) == 0 {
						s.Apply(Action{Kind: "leaveTo", Node: x, Peer: j})
						notified++
					}
				}
				if notified == 0 {
					// at least one peer hears of it by gossip before the node goes silent
					j := (x + 1) % n
					s.Exchange(j, x)
				}
				s.Apply(Action{Kind: "crash", Node: x}) // the process exits after leaving
				s.Stats["graceful_leaves"]++
			}
			if variant == "leave-closure" && !s.Failed() {
				// "the rest follow through gossip": if some survivor has learned that X
				// left, loss-free sweeps among the survivors must keep making progress
				// (some survivor's view of X advances every sweep) until every survivor
				// that knows X knows that it left. Truncated deltas may need many sweeps,
				// so the verdict is on progress, not on a fixed number of sweeps.
				var surv []int
				for _, m := range s.Nodes {
					if m.Started && m.Alive && m.Idx != x && !m.Left {
						surv = append(surv, m.Idx)
					}
				}
				heard := false
				for _, i := range surv {
					if meta, ok := s.Meta(i, x); ok && meta.Left {
						heard = true
					}
				}
				if !heard {
					s.Stats["leave_heard_by_nobody"]++ // e.g. the only pull was truncated before the marker
				}
				for sweep := 0; heard && sweep < 400 && !s.Failed(); sweep++ {
					lag := -1
					var sum uint64
					for _, i := range surv {
						if meta, ok := s.Meta(i, x); ok {
							sum += meta.Version
							if !meta.Left {
								lag = i
							}
						}
					}
					if lag < 0 {
						s.Stats["leave_propagation_checks"]++
						if int64(sweep) > s.Stats["leave_propagation_sweeps_max"] {
							s.Stats["leave_propagation_sweeps_max"] = int64(sweep)
						}
						break
					}
					for _, i := range surv {
						for _, j := range surv {
							if i != j && s.Knows(i, j) {
								s.Exchange(i, j)
							}
						}
					}
					var after uint64
					for _, i := range surv {
						if meta, ok := s.Meta(i, x); ok {
							after += meta.Version
						}
					}
					if after == sum {
						// one more chance: digests are shuffled and may be truncated
						if sweep%8 != 7 {
							continue
						}
						meta, _ := s.Meta(lag, x)
						s.Fail("leave-not-propagated", "n%d left gracefully and a survivor knows it, but loss-free gossip sweeps among the survivors make no progress: n%d still holds it as a member that has not left (unreachable=%v, version %d) after %d sweeps", x, lag, meta.Unreachable, meta.Version, sweep+1)
					}
				}
			}
			if !s.Failed() {
				closure(s, r, x, map[string]string{"crash-closure": "crashed", "leave-closure": "left"}[variant])
			}
		}
		sh.Eval()
		addStats(sh, s)
		if i < 3 {
			sh.Sample(map[string]any{"variant": variant, "cfg": cfg, "stats": s.Stats, "last_actions": describeTrail(s.Trail, 15)})
		}
		if s.Stats["expirations"] > 0 && (s.Stats["unreachable_marks"] > 0 || s.Stats["graceful_leaves"] > 0) {
			sh.Nontrivial(core.Hash(variant, cfg.N, s.Stats["expirations"], s.Stats["unreachable_marks"], s.Stats["recoveries"], s.Stats["rediscoveries"], s.Step, finalHash(s)))
		}
		reportFailures(sh, "C11", s, variant)
		s.Close()
	}
}

func init() {
	props.Register(&props.Prop{
		ID: "C11", Level: "exploration",
		Rule: "simulator runs with a logical-clock failure detector (same contract as the real one, which C12 checks) and logical-time expiry (expiry period = 600 gossip intervals, as in piko): (a) random interleavings of writes, gossip with loss/dup/delay, stream leave, crash, ticks, liveness evaluation and early/due/late/partial sweeps with per-step rules (local node never flagged or removed, left only if the owner left, left never revived, a view that has reached the version of the owner's current left marker shows the node as left (and a caught-up view of an owner that lost its marker is reported), flagged nodes are scheduled for removal and excluded from the live set, routing status follows the flags, no discovery from a digest that marks the node left, liveness flag == suspicion>threshold, sweeps remove exactly the expired); (b) crash-closure and (c) leave-closure scenarios: after the node goes away the survivors tick/evaluate/sweep-what-is-due/gossip with seeded skew and the node must be forgotten by all within expiry + (N+3) detection periods and stay forgotten for two more expiry periods. Non-trivial = at least one expiry and one unreachable mark or graceful leave; distinct = hash of (variant, event counts, final states).",
		Assumptions: []string{
			"failure detector replaced by a logical-clock implementation of the same interface contract (C12 checks the real one)",
			"expiry sweeps driven through RemoveExpiredAt with times derived from the recorded expiry values, not the wall clock",
		},
		RequireCounters: []string{"expirations", "unreachable_marks", "recoveries", "graceful_leaves", "closure_forgotten", "rediscoveries", "leave_propagation_checks", "left_marker_checks"},
		Timeout:         simTimeout(10*time.Minute, 90*time.Minute),
		Run:             runC11,
		Replay:          replayWith(c11Monitors),
	})
}
