package gsim

import (
	"fmt"
	"math/rand"
	"runtime"
	"sync"
	"time"

	"github.com/andydunstall/piko/pkg/gossip"
	"github.com/andydunstall/piko/pkg/log"
	"github.com/andydunstall/piko/server/cluster"
	servergossip "github.com/andydunstall/piko/server/gossip"
)

// Concurrent routing leg (used by C04 and by C20). One observer carries the real
// gossip state, the real syncer as its watcher and the real cluster.State; a
// small set of mutually known owners publish addresses and endpoint counts. As
// in a running node, the observer is fed from several goroutines at once
// (digests and deltas of any owner, liveness evaluation with a flipping
// detector, expiry sweeps) while the owners add/withdraw endpoints, compact and
// leave. Judged at quiescence with rule (i) of C04: the routing table lists
// every node whose view shows both addresses (unless it left), lists nobody
// gossip has forgotten, and each listed node's status and endpoint counts equal
// what the view shows.

// yieldingWatcher gives other goroutines a chance between the gossip state's
// change and the end of the callback (a watcher may take its time).
type yieldingWatcher struct {
	w gossip.Watcher
	n int64
	m sync.Mutex
}

func (y *yieldingWatcher) tick() {
	y.m.Lock()
	y.n++
	n := y.n
	y.m.Unlock()
	if n%2 == 0 {
		runtime.Gosched()
	}
}
func (y *yieldingWatcher) OnJoin(id string)            { y.tick(); y.w.OnJoin(id) }
func (y *yieldingWatcher) OnLeave(id string)           { y.tick(); y.w.OnLeave(id) }
func (y *yieldingWatcher) OnReachable(id string)       { y.tick(); y.w.OnReachable(id) }
func (y *yieldingWatcher) OnUnreachable(id string)     { y.tick(); y.w.OnUnreachable(id) }
func (y *yieldingWatcher) OnUpsertKey(id, k, v string) { y.tick(); y.w.OnUpsertKey(id, k, v) }
func (y *yieldingWatcher) OnDeleteKey(id, k string)    { y.tick(); y.w.OnDeleteKey(id, k) }
func (y *yieldingWatcher) OnExpired(id string)         { y.tick(); y.w.OnExpired(id) }

type RouteConcWitness struct {
	Prop    string     `json:"prop"`
	Kind    string     `json:"kind"`
	Seed    int64      `json:"seed"`
	Scripts [][]concOp `json:"scripts"`
	Sig     string     `json:"sig"`
	What    string     `json:"what"`
}

// RoutingConcRound runs one round and returns the first disagreement found at
// quiescence, the witness, and how many remote nodes were compared.
func RoutingConcRound(seed int64) (sig, what string, w RouteConcWitness, compared int64) {
	r := rand.New(rand.NewSource(seed))
	m := 3 + r.Intn(3)
	owners := make([]*gossip.VNode, m)
	for i := range owners {
		owners[i] = gossip.NewVNode(gossip.VNodeConfig{ID: fmt.Sprintf("o%d", i), Addr: fmt.Sprintf("10.0.0.%d:7000", i+1), MaxPacketSize: 1400, FailureDetector: &flipFD{}})
		owners[i].UpsertLocal("proxy_addr", fmt.Sprintf("10.0.0.%d:8000", i+1))
		owners[i].UpsertLocal("admin_addr", fmt.Sprintf("10.0.0.%d:8002", i+1))
		for k := 0; k < r.Intn(4); k++ {
			owners[i].UpsertLocal(fmt.Sprintf("endpoint:e%d", k), fmt.Sprint(1+r.Intn(3)))
		}
	}
	for pass := 0; pass < 2; pass++ {
		for i := range owners {
			for j := range owners {
				if i != j {
					owners[i].ApplyDelta(owners[j].Delta(nil, true))
				}
			}
		}
	}
	cs := cluster.NewState(&cluster.Node{ID: "obs", ProxyAddr: "10.0.1.1:8000", AdminAddr: "10.0.1.1:8002"}, log.NewNopLogger())
	syn := servergossip.NewVSyncer(cs)
	fd := &flipFD{}
	obs := gossip.NewVNode(gossip.VNodeConfig{ID: "obs", Addr: "10.0.1.1:7000", MaxPacketSize: 1400, FailureDetector: fd,
		Watcher: &yieldingWatcher{w: syn.Watcher()}})
	syn.Sync(obs)

	g := 3 + r.Intn(3)
	scripts := make([][]concOp, g)
	left := false
	for i := range scripts {
		for j := 0; j < 2+r.Intn(7); j++ {
			op := concOp{Owner: r.Intn(m)}
			switch x := r.Intn(100); {
			case x < 26:
				op.Kind = "digest"
			case x < 48:
				op.Kind = "delta"
			case x < 60:
				op.Kind = "fulldelta"
			case x < 70:
				op.Kind, op.Key, op.Val = "upsert", fmt.Sprintf("endpoint:e%d", r.Intn(5)), fmt.Sprint(1+r.Intn(4))
			case x < 77:
				op.Kind, op.Key = "delete", fmt.Sprintf("endpoint:e%d", r.Intn(5))
			case x < 81:
				op.Kind = "compact"
			case x < 83 && !left:
				op.Kind = "leave"
				left = true
			case x < 90:
				op.Kind = "liveness"
			case x < 94:
				op.Kind = "flip"
			default:
				op.Kind = "expire"
			}
			if op.Kind == "" {
				op.Kind = "digest"
			}
			scripts[i] = append(scripts[i], op)
		}
	}
	w = RouteConcWitness{Kind: "routing-concurrent", Seed: seed, Scripts: scripts}
	var wg sync.WaitGroup
	start := make(chan struct{})
	for i := range scripts {
		wg.Add(1)
		go func(ops []concOp) {
			defer wg.Done()
			<-start
			for _, op := range ops {
				o := owners[op.Owner]
				switch op.Kind {
				case "digest":
					obs.ApplyDigest(o.Digest())
				case "delta":
					obs.ApplyDelta(o.Delta(obs.Digest(), true))
				case "fulldelta":
					obs.ApplyDelta(o.Delta(nil, true))
				case "upsert":
					o.UpsertLocal(op.Key, op.Val)
				case "delete":
					o.DeleteLocal(op.Key)
				case "compact":
					o.CompactLocal(1)
				case "leave":
					o.LeaveLocal()
				case "liveness":
					obs.UpdateLiveness(10)
				case "flip":
					fd.gen.Add(1)
				case "expire":
					obs.RemoveExpiredAt(time.Now().Add(2 * time.Hour))
				}
			}
		}(scripts[i])
	}
	close(start)
	wg.Wait()

	fail := func(s, format string, a ...any) {
		if sig == "" {
			sig, what = s, fmt.Sprintf(format, a...)
		}
	}
	inView := map[string]bool{}
	for _, meta := range obs.Nodes() {
		if meta.ID == "obs" {
			continue
		}
		inView[meta.ID] = true
		st, _ := obs.Node(meta.ID)
		proxy, admin, eps, bad := viewRouting(st)
		if bad != "" {
			continue
		}
		compared++
		cn, inTable := cs.Node(meta.ID)
		switch {
		case proxy != "" && admin != "" && !inTable:
			if !st.Left {
				fail("node-missing-from-table", "the view of %s has both addresses but the routing table does not list the node (pending: %v)\n  view: %s", meta.ID, syn.PendingIDs(), stateString(st))
			}
		case inTable:
			want := cluster.NodeStatusActive
			if st.Left {
				want = cluster.NodeStatusLeft
			} else if st.Unreachable {
				want = cluster.NodeStatusUnreachable
			}
			if cn.Status != want {
				fail("status-mismatch", "the routing table holds %s as %q but its membership flags say %q (left=%v unreachable=%v)", meta.ID, cn.Status, want, st.Left, st.Unreachable)
			}
			if (proxy != "" && cn.ProxyAddr != proxy) || (admin != "" && cn.AdminAddr != admin) {
				fail("address-mismatch", "table has %s at proxy=%q admin=%q, the view says proxy=%q admin=%q", meta.ID, cn.ProxyAddr, cn.AdminAddr, proxy, admin)
			}
			if !sameEps(cn.Endpoints, eps) {
				fail("table-differs-from-view", "routing table endpoints of %s are %s but the gossip view advertises %s\n  view: %s", meta.ID, epString(cn.Endpoints), epString(eps), stateString(st))
			}
		}
	}
	for _, cn := range cs.Nodes() {
		if cn.ID != "obs" && !inView[cn.ID] {
			fail("table-has-forgotten-node", "gossip no longer knows %s but the routing table still lists it (%s, %s)", cn.ID, cn.Status, epString(cn.Endpoints))
		}
	}
	w.Sig, w.What = sig, what
	return
}
