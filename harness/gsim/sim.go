// Package gsim is engine E1: a deterministic packet-level simulator that drives
// the real pkg/gossip code (clusterState, packetListener, streamListener,
// Gossip.gossip/join/leave) one datagram at a time under a seeded scheduler.
//
// Every state-mutating step is an Action; the executed action list, including
// the bytes of every delivered datagram, is the witness of a violation and can
// be replayed on fresh nodes (emission is read-only, so feeding the recorded
// datagrams reproduces every receiver's state although Go randomises the map
// iteration order piko uses when it builds digests).
package gsim

import (
	"fmt"
	"math/rand"
	"net"
	"sort"
	"strconv"
	"time"

	"github.com/andydunstall/piko/pkg/gossip"
	"github.com/andydunstall/piko/pkg/log"
	"github.com/andydunstall/piko/server/cluster"
	servergossip "github.com/andydunstall/piko/server/gossip"
)

// Action is one scheduler step. Only the fields relevant to Kind are set.
type Action struct {
	Kind  string `json:"k"`
	Node  int    `json:"n"`
	Peer  int    `json:"p,omitempty"`
	Key   string `json:"key,omitempty"`
	Val   string `json:"val,omitempty"`
	Th    int    `json:"th,omitempty"`
	Dt    int64  `json:"dt,omitempty"`
	Mode  string `json:"mode,omitempty"`
	Bytes []byte `json:"b,omitempty"`
	// provenance of a delivered datagram
	DgID    int  `json:"dg,omitempty"`
	Src     int  `json:"src,omitempty"`
	Answers int  `json:"ans,omitempty"` // id of the datagram this one answers (0 = none)
	Dup     bool `json:"dup,omitempty"`
	// EmitStep is the step during which the delivered datagram was emitted (stable
	// between a run and its replay, unlike datagram ids)
	EmitStep int `json:"es,omitempty"`
}

func (a Action) String() string {
	switch a.Kind {
	case "upsert":
		return fmt.Sprintf("n%d.upsert(%q,%q)", a.Node, a.Key, trunc(a.Val))
	case "delete":
		return fmt.Sprintf("n%d.delete(%q)", a.Node, a.Key)
	case "compact":
		return fmt.Sprintf("n%d.compact(%d)", a.Node, a.Th)
	case "leaveLocal":
		return fmt.Sprintf("n%d.leaveLocal", a.Node)
	case "gossip":
		return fmt.Sprintf("n%d.gossip->n%d", a.Node, a.Peer)
	case "deliver":
		return fmt.Sprintf("deliver dg%d n%d->n%d (%d bytes, answers dg%d, dup=%v)", a.DgID, a.Src, a.Node, len(a.Bytes), a.Answers, a.Dup)
	case "drop":
		return fmt.Sprintf("drop dg%d", a.DgID)
	case "join":
		return fmt.Sprintf("n%d.join(n%d)", a.Node, a.Peer)
	case "leaveTo":
		return fmt.Sprintf("n%d.leaveTo(n%d)", a.Node, a.Peer)
	case "tick":
		return fmt.Sprintf("tick(%d)", a.Dt)
	case "setMax":
		return fmt.Sprintf("setMaxPacketSize(%d)", a.Th)
	case "liveness":
		return fmt.Sprintf("n%d.liveness", a.Node)
	case "sweep":
		return fmt.Sprintf("n%d.sweep(%s)", a.Node, a.Mode)
	case "crash":
		return fmt.Sprintf("n%d.crash", a.Node)
	case "epAdd":
		return fmt.Sprintf("n%d.epAdd(%q)", a.Node, a.Key)
	case "epRemove":
		return fmt.Sprintf("n%d.epRemove(%q)", a.Node, a.Key)
	case "start":
		return fmt.Sprintf("n%d.start", a.Node)
	}
	return a.Kind
}

func trunc(s string) string {
	if len(s) > 24 {
		return s[:24] + fmt.Sprintf("...(%d)", len(s))
	}
	return s
}

// Datagram is an in-flight UDP packet with provenance.
type Datagram struct {
	ID      int
	Src     int
	Dst     int
	Bytes   []byte
	Answers int
	Step    int
	IsDelta bool
}

// Config of one simulator run.
type Config struct {
	N             int   `json:"n"`
	MaxPacketSize int   `json:"max_packet_size"`
	Streams       bool  `json:"streams"` // real loopback TCP listeners for join/leave
	Routing       bool  `json:"routing"` // attach real cluster.State + syncer as watcher
	Seed          int64 `json:"seed"`
	// LateStart: nodes >= this index are created lazily by a "start" action.
	LateStart int `json:"late_start,omitempty"`
}

// Monitor observes the simulation.
type Monitor interface {
	// AfterStep runs after every applied action.
	AfterStep(s *Sim, a *Action)
}

// EmitMonitor observes every emitted datagram.
type EmitMonitor interface {
	OnEmit(s *Sim, d *Datagram, answering *Datagram)
}

type Failure struct {
	Sig  string
	What string
	Step int
}

type Sim struct {
	Cfg      Config
	Rng      *rand.Rand
	Nodes    []*SimNode
	Inflight []*Datagram
	Step     int
	Clock    int64 // logical time in units of 1/100 of a gossip interval
	Trail    []Action
	Monitors []Monitor
	EmitMons []EmitMonitor
	Failures []Failure
	// known-finding observations (signature -> count)
	Known map[string]int

	nextDg   int
	curDeliv *Datagram
	replay   bool

	// flagged tracks, per (observer, subject), the logical time at which the
	// subject's expiry was (last) scheduled at the observer.
	flagged map[[2]int]flagInfo

	// statistics
	Stats map[string]int64
}

type flagInfo struct {
	expiry time.Time
	at     int64
}

// ExpiryTicks is the logical equivalent of piko's one-minute node expiry:
// 600 gossip intervals of 100 ticks (the real ratio at the default 100 ms).
const ExpiryTicks = 60000

type SimNode struct {
	Idx     int
	ID      string
	Addr    string
	V       *gossip.VNode
	FD      *LogicalFD
	Rec     *Recorder
	Cluster *cluster.State
	Syncer  *servergossip.VSyncer
	Alive   bool
	Started bool
	Left    bool
	ln      net.Listener
	sim     *Sim

	Hist *OwnerHistory
}

// ---- fake packet conn -----------------------------------------------------

type fakeConn struct {
	sim *Sim
	idx int
}

func (c *fakeConn) ReadFrom(p []byte) (int, net.Addr, error) { select {} }
func (c *fakeConn) Close() error                             { return nil }
func (c *fakeConn) LocalAddr() net.Addr                      { return &net.UDPAddr{} }
func (c *fakeConn) SetDeadline(time.Time) error              { return nil }
func (c *fakeConn) SetReadDeadline(time.Time) error          { return nil }
func (c *fakeConn) SetWriteDeadline(time.Time) error         { return nil }

func (c *fakeConn) WriteTo(p []byte, addr net.Addr) (int, error) {
	s := c.sim
	dst := -1
	as := addr.String()
	for _, n := range s.Nodes {
		if n.Addr == as {
			dst = n.Idx
		}
	}
	b := append([]byte(nil), p...)
	s.nextDg++
	d := &Datagram{ID: s.nextDg, Src: c.idx, Dst: dst, Bytes: b, Step: s.Step,
		IsDelta: len(b) > 0 && b[0] == 2}
	if s.curDeliv != nil {
		d.Answers = s.curDeliv.ID
	}
	s.Stats["datagrams_emitted"]++
	for _, m := range s.EmitMons {
		m.OnEmit(s, d, s.curDeliv)
	}
	if dst >= 0 && !s.replay {
		s.Inflight = append(s.Inflight, d)
	}
	return len(p), nil
}

// ---- logical-clock failure detector -----------------------------------------

// LogicalFD has the contract of the real detector on a logical clock:
// suspicion = silence since the node was last heard / interval, starting from
// "now" at the first query after (re)discovery.
type LogicalFD struct {
	sim       *Sim
	lastHeard map[string]int64
	Interval  int64
}

func (f *LogicalFD) Report(id string) { f.lastHeard[id] = f.sim.Clock }
func (f *LogicalFD) SuspicionLevel(id string) float64 {
	t, ok := f.lastHeard[id]
	if !ok {
		f.lastHeard[id] = f.sim.Clock
		return 0
	}
	return float64(f.sim.Clock-t) / float64(f.Interval)
}
func (f *LogicalFD) Remove(id string) { delete(f.lastHeard, id) }

// ---- construction ----------------------------------------------------------------

func NodeID(i int) string { return "n" + strconv.Itoa(i) }

func New(cfg Config) *Sim {
	s := &Sim{Cfg: cfg, Rng: rand.New(rand.NewSource(cfg.Seed)), Known: map[string]int{},
		Stats: map[string]int64{}}
	// piko shuffles digests with the global math/rand source
	rand.Seed(cfg.Seed)
	for i := 0; i < cfg.N; i++ {
		n := &SimNode{Idx: i, ID: NodeID(i), sim: s, Alive: true}
		if cfg.Streams {
			ln, err := net.Listen("tcp", "127.0.0.1:0")
			if err != nil {
				panic("VERIF-HARNESS-ERROR listen: " + err.Error())
			}
			n.ln = ln
			n.Addr = ln.Addr().String()
		} else {
			n.Addr = "127.0.0.1:" + strconv.Itoa(20000+i)
		}
		s.Nodes = append(s.Nodes, n)
	}
	for _, n := range s.Nodes {
		if cfg.LateStart > 0 && n.Idx >= cfg.LateStart {
			continue
		}
		s.startNode(n)
	}
	return s
}

func (s *Sim) startNode(n *SimNode) {
	n.FD = &LogicalFD{sim: s, lastHeard: map[string]int64{}, Interval: 100}
	n.Rec = NewRecorder(n.ID)
	var w gossip.Watcher = n.Rec
	if s.Cfg.Routing {
		n.Cluster = cluster.NewState(&cluster.Node{
			ID:        n.ID,
			ProxyAddr: "proxy-" + n.ID,
			AdminAddr: "admin-" + n.ID,
		}, log.NewNopLogger())
		n.Syncer = servergossip.NewVSyncer(n.Cluster)
		w = &teeWatcher{a: n.Rec, b: n.Syncer.Watcher()}
	}
	n.V = gossip.NewVNode(gossip.VNodeConfig{
		ID: n.ID, Addr: n.Addr, MaxPacketSize: s.Cfg.MaxPacketSize,
		StreamTimeout: 5 * time.Second,
		PacketConn:    &fakeConn{sim: s, idx: n.Idx}, FailureDetector: n.FD, Watcher: w,
	})
	if n.ln != nil {
		n.V.ServeStreams(n.ln)
	}
	n.Hist = NewOwnerHistory()
	n.Started = true
	if s.Cfg.Routing {
		n.Syncer.Sync(n.V)
	}
	n.Hist.Observe(n.V.LocalNode())
}

func (s *Sim) Close() {
	for _, n := range s.Nodes {
		if n.ln != nil {
			n.ln.Close()
		}
	}
}

func (s *Sim) Fail(sig, format string, a ...any) {
	if len(s.Failures) < 5 {
		s.Failures = append(s.Failures, Failure{Sig: sig, What: fmt.Sprintf(format, a...), Step: s.Step})
	}
}

func (s *Sim) Failed() bool { return len(s.Failures) > 0 }

// ---- applying actions ----------------------------------------------------------

// Apply executes one action on the real code, records it and runs the monitors.
func (s *Sim) Apply(a Action) {
	s.Step++
	n := s.Nodes[a.Node%len(s.Nodes)]
	switch a.Kind {
	case "upsert":
		n.V.UpsertLocal(a.Key, a.Val)
		n.Hist.Observe(n.V.LocalNode())
	case "delete":
		n.V.DeleteLocal(a.Key)
		n.Hist.Observe(n.V.LocalNode())
	case "compact":
		before := n.V.LocalNode().Version
		n.V.CompactLocal(a.Th)
		ln := n.V.LocalNode()
		if ln.Version != before {
			s.Stats["compactions"]++
		}
		n.Hist.Observe(ln)
	case "leaveLocal":
		n.V.LeaveLocal()
		n.Left = true
		n.Hist.Observe(n.V.LocalNode())
	case "epAdd":
		n.Cluster.AddLocalEndpoint(a.Key)
		n.Hist.Observe(n.V.LocalNode())
	case "epRemove":
		n.Cluster.RemoveLocalEndpoint(a.Key)
		n.Hist.Observe(n.V.LocalNode())
	case "gossip":
		peer := s.Nodes[a.Peer]
		// gossip with the peer as this node knows it
		for _, m := range n.V.Nodes() {
			if m.ID == peer.ID {
				_ = n.V.GossipWith(m)
				s.Stats["gossip_rounds"]++
				break
			}
		}
	case "deliver":
		d := &Datagram{ID: a.DgID, Src: a.Src, Dst: a.Node, Bytes: a.Bytes, Answers: a.Answers}
		s.curDeliv = d
		before := n.V.LocalNode()
		_ = n.V.HandlePacket(append([]byte(nil), a.Bytes...))
		s.curDeliv = nil
		after := n.V.LocalNode()
		if !sameNodeState(before, after) {
			s.Fail("own-state-changed", "n%d's own state changed by delivering dg%d: before %v after %v", n.Idx, a.DgID, before, after)
		}
		s.Stats["deliveries"]++
		if a.Dup {
			s.Stats["duplicates"]++
		}
	case "drop":
		s.Stats["drops"]++
	case "join":
		peer := s.Nodes[a.Peer]
		pb := peer.V.LocalNode()
		if _, err := n.V.JoinAddr(peer.Addr); err != nil {
			s.Stats["join_errors"]++
		}
		if !sameNodeState(pb, peer.V.LocalNode()) {
			s.Fail("own-state-changed", "n%d's own state changed by a join stream from n%d", peer.Idx, n.Idx)
		}
		s.Stats["joins"]++
	case "leaveTo":
		peer := s.Nodes[a.Peer]
		pb := peer.V.LocalNode()
		if err := n.V.LeaveTo(peer.Addr); err != nil {
			s.Stats["leave_errors"]++
		}
		if !sameNodeState(pb, peer.V.LocalNode()) {
			s.Fail("own-state-changed", "n%d's own state changed by a leave stream from n%d", peer.Idx, n.Idx)
		}
		s.Stats["leave_streams"]++
	case "tick":
		s.Clock += a.Dt
	case "setMax":
		s.Cfg.MaxPacketSize = a.Th
		for _, m := range s.Nodes {
			if m.Started {
				m.V.SetMaxPacketSize(a.Th)
			}
		}
	case "liveness":
		n.V.UpdateLiveness(float64(gossip.VSuspicionThreshold))
		s.Stats["liveness_evals"]++
	case "sweep":
		switch a.Mode {
		case "early":
			n.V.RemoveExpiredAt(time.Now().Add(-time.Hour))
		case "late":
			n.V.RemoveExpiredAt(time.Now().Add(3 * gossip.VNodeExpiry))
		case "due":
			// logical-clock expiry: remove exactly the nodes whose expiry was
			// scheduled at least ExpiryTicks ago (flagging order = wall-clock order)
			var cut time.Time
			for _, m := range n.V.Nodes() {
				if m.Expiry.IsZero() {
					continue
				}
				for _, o := range s.Nodes {
					if o.ID != m.ID {
						continue
					}
					fi, ok := s.flagged[[2]int{n.Idx, o.Idx}]
					if ok && s.Clock-fi.at >= ExpiryTicks && m.Expiry.After(cut) {
						cut = m.Expiry
					}
				}
			}
			if !cut.IsZero() {
				n.V.RemoveExpiredAt(cut.Add(time.Nanosecond))
			} else {
				n.V.RemoveExpiredAt(time.Now().Add(-time.Hour))
			}
		default:
			// "upto:<id>": expire exactly the nodes whose expiry is not after <id>'s
			id := a.Mode[len("upto:"):]
			for _, m := range n.V.Nodes() {
				if m.ID == id && !m.Expiry.IsZero() {
					n.V.RemoveExpiredAt(m.Expiry.Add(time.Nanosecond))
				}
			}
		}
		s.Stats["sweeps"]++
	case "crash":
		n.Alive = false
		s.Stats["crashes"]++
	case "start":
		if !n.Started {
			s.startNode(n)
		}
	default:
		panic("VERIF-HARNESS-ERROR unknown action " + a.Kind)
	}
	s.trackFlags()
	s.Trail = append(s.Trail, a)
	for _, m := range s.Monitors {
		m.AfterStep(s, &s.Trail[len(s.Trail)-1])
	}
}

func (s *Sim) trackFlags() {
	if s.flagged == nil {
		s.flagged = map[[2]int]flagInfo{}
	}
	for _, p := range s.Nodes {
		if !p.Started {
			continue
		}
		seen := map[int]bool{}
		for _, m := range p.V.Nodes() {
			for _, o := range s.Nodes {
				if o.ID != m.ID || o.Idx == p.Idx {
					continue
				}
				seen[o.Idx] = true
				pair := [2]int{p.Idx, o.Idx}
				if m.Expiry.IsZero() {
					delete(s.flagged, pair)
					continue
				}
				if fi, ok := s.flagged[pair]; !ok || !fi.expiry.Equal(m.Expiry) {
					s.flagged[pair] = flagInfo{expiry: m.Expiry, at: s.Clock}
				}
			}
		}
		for pair := range s.flagged {
			if pair[0] == p.Idx && !seen[pair[1]] {
				delete(s.flagged, pair)
			}
		}
	}
}

// FlaggedAt returns the logical time at which o's expiry was scheduled at p.
func (s *Sim) FlaggedAt(p, o int) (int64, bool) {
	fi, ok := s.flagged[[2]int{p, o}]
	return fi.at, ok
}

// Deliver delivers in-flight datagram at index i (removing it unless dup).
func (s *Sim) Deliver(i int, dup bool) {
	d := s.Inflight[i]
	if !dup {
		s.Inflight = append(s.Inflight[:i], s.Inflight[i+1:]...)
	}
	if d.Dst < 0 || !s.Nodes[d.Dst].Alive || !s.Nodes[d.Dst].Started {
		s.Apply(Action{Kind: "drop", DgID: d.ID})
		return
	}
	if d.Step < s.Step-1 {
		s.Stats["delayed_deliveries"]++
	}
	s.Apply(Action{Kind: "deliver", Node: d.Dst, Bytes: d.Bytes, DgID: d.ID, Src: d.Src, Answers: d.Answers, Dup: dup, EmitStep: d.Step})
}

func (s *Sim) Drop(i int) {
	d := s.Inflight[i]
	s.Inflight = append(s.Inflight[:i], s.Inflight[i+1:]...)
	s.Apply(Action{Kind: "drop", DgID: d.ID})
}

// DrainAll delivers every in-flight datagram (and the responses) in FIFO order.
func (s *Sim) DrainAll() {
	for guard := 0; len(s.Inflight) > 0 && guard < 10000; guard++ {
		s.Deliver(0, false)
	}
}

// DropAll discards every in-flight datagram.
func (s *Sim) DropAll() {
	for len(s.Inflight) > 0 {
		s.Drop(0)
	}
}

// Exchange runs one complete loss-free gossip exchange i -> j.
func (s *Sim) Exchange(i, j int) {
	s.Apply(Action{Kind: "gossip", Node: i, Peer: j})
	s.DrainAll()
}

// Knows reports whether node i has node j in its membership view.
func (s *Sim) Knows(i, j int) bool {
	_, ok := s.Nodes[i].V.Node(s.Nodes[j].ID)
	return ok
}

func (s *Sim) Meta(i, j int) (gossip.NodeMetadata, bool) {
	st, ok := s.Nodes[i].V.Node(s.Nodes[j].ID)
	if !ok {
		return gossip.NodeMetadata{}, false
	}
	return st.NodeMetadata, true
}

// ---- replay -----------------------------------------------------------------

// Replay applies a recorded action list on a fresh simulator.
func Replay(cfg Config, trail []Action, mons func(*Sim)) *Sim {
	s := New(cfg)
	s.replay = true
	if mons != nil {
		mons(s)
	}
	for _, a := range trail {
		s.Apply(a)
		if s.Failed() {
			break
		}
	}
	return s
}

// ---- helpers ------------------------------------------------------------------

func sameNodeState(a, b *gossip.NodeState) bool {
	if a.ID != b.ID || a.Addr != b.Addr || a.Version != b.Version || a.Left != b.Left ||
		a.Unreachable != b.Unreachable || !a.Expiry.Equal(b.Expiry) || len(a.Entries) != len(b.Entries) {
		return false
	}
	for i := range a.Entries {
		if a.Entries[i] != b.Entries[i] {
			return false
		}
	}
	return true
}

func sortedEntries(st *gossip.NodeState) []gossip.Entry {
	es := append([]gossip.Entry(nil), st.Entries...)
	sort.Slice(es, func(i, j int) bool { return es[i].Version < es[j].Version })
	return es
}

// teeWatcher forwards callbacks to two watchers in order.
type teeWatcher struct{ a, b gossip.Watcher }

func (t *teeWatcher) OnJoin(id string)             { t.a.OnJoin(id); t.b.OnJoin(id) }
func (t *teeWatcher) OnLeave(id string)            { t.a.OnLeave(id); t.b.OnLeave(id) }
func (t *teeWatcher) OnReachable(id string)        { t.a.OnReachable(id); t.b.OnReachable(id) }
func (t *teeWatcher) OnUnreachable(id string)      { t.a.OnUnreachable(id); t.b.OnUnreachable(id) }
func (t *teeWatcher) OnUpsertKey(id, k, v string)  { t.a.OnUpsertKey(id, k, v); t.b.OnUpsertKey(id, k, v) }
func (t *teeWatcher) OnDeleteKey(id, k string)     { t.a.OnDeleteKey(id, k); t.b.OnDeleteKey(id, k) }
func (t *teeWatcher) OnExpired(id string)          { t.a.OnExpired(id); t.b.OnExpired(id) }
