package gsim

import (
	"fmt"
	"hash/fnv"
	"math/rand"
	"runtime"
	"sync"
	"sync/atomic"
	"time"

	"github.com/andydunstall/piko/pkg/gossip"

	"verif/harness/core"
	"verif/harness/props"
)

// Concurrent leg of C14. In a running node the observer's state is fed from
// several goroutines at once: the packet listener (digests, deltas), one
// goroutine per join/leave stream, the liveness/expiry tickers. The simulator
// serialises all of that; this leg does not. Per round a fresh observer with a
// thread-safe recording watcher is fed digests and deltas of a small, mutually
// known set of owners from several goroutines released together, while the
// owners keep writing/deleting/compacting/leaving, the failure detector flips
// and expiry sweeps run. The oracle runs at quiescence (all goroutines
// joined): the per-callback rules (join precedes keys, nothing about unknown
// nodes) over the whole recorded order, and fold == view.

type lockedRec struct {
	mu sync.Mutex
	r  *Recorder
	n  atomic.Int64
}

func (l *lockedRec) with(f func()) {
	l.mu.Lock()
	f()
	l.mu.Unlock()
	// a watcher may take its time; yielding here widens whatever window a
	// callback made outside the state mutex would open
	if l.n.Add(1)%2 == 0 {
		runtime.Gosched()
	}
}
func (l *lockedRec) OnJoin(id string)        { l.with(func() { l.r.OnJoin(id) }) }
func (l *lockedRec) OnLeave(id string)       { l.with(func() { l.r.OnLeave(id) }) }
func (l *lockedRec) OnReachable(id string)   { l.with(func() { l.r.OnReachable(id) }) }
func (l *lockedRec) OnUnreachable(id string) { l.with(func() { l.r.OnUnreachable(id) }) }
func (l *lockedRec) OnUpsertKey(id, k, v string) {
	l.with(func() { l.r.OnUpsertKey(id, k, v) })
}
func (l *lockedRec) OnDeleteKey(id, k string) { l.with(func() { l.r.OnDeleteKey(id, k) }) }
func (l *lockedRec) OnExpired(id string)      { l.with(func() { l.r.OnExpired(id) }) }

// flipFD suspects a varying third of the nodes, decided by a generation counter.
type flipFD struct{ gen atomic.Int64 }

func (f *flipFD) Report(string) {}
func (f *flipFD) Remove(string) {}
func (f *flipFD) SuspicionLevel(id string) float64 {
	h := fnv.New32a()
	h.Write([]byte(id))
	if (int64(h.Sum32()%3)+f.gen.Load())%3 == 0 {
		return 1000
	}
	return 0
}

type concOp struct {
	Kind  string // digest, delta, fulldelta, upsert, delete, compact, leave, liveness, expire, flip
	Owner int
	Key   string
	Val   string
}

func (o concOp) String() string {
	return fmt.Sprintf("%s(o%d %s)", o.Kind, o.Owner, o.Key)
}

// compareFold is the C14 oracle at one observation point.
func compareFold(v *gossip.VNode, self string, r *Recorder, fail func(sig, format string, a ...any)) {
	if len(r.Bad) > 0 {
		fail("watcher-protocol", "watcher: %s\n  events: %v", r.Bad[0], tailStr(r.Log, 16))
	}
	seen := 0
	for _, meta := range v.Nodes() {
		if meta.ID == self {
			continue
		}
		seen++
		rn, ok := r.Nodes[meta.ID]
		if !ok {
			fail("fold-missing-node", "the node knows %s but its watcher was never told (fold has %d nodes)\n  events: %v", meta.ID, len(r.Nodes), tailStr(r.Log, 16))
			continue
		}
		st, _ := v.Node(meta.ID)
		vis := visibleKV(st)
		if !sameKV(vis, rn.KV) {
			fail("fold-kv-mismatch", "the view of %s is %s but folding the notifications gives %s\n  state: %s\n  events: %v", meta.ID, kvString(vis), kvString(rn.KV), stateString(st), tailStr(r.Log, 20))
		}
		if rn.Left != meta.Left || rn.Unreachable != meta.Unreachable {
			fail("fold-flag-mismatch", "the view of %s has left=%v unreachable=%v but the notifications say left=%v unreachable=%v\n  events: %v", meta.ID, meta.Left, meta.Unreachable, rn.Left, rn.Unreachable, tailStr(r.Log, 16))
		}
	}
	if seen != len(r.Nodes) {
		fail("fold-extra-node", "the node knows %d remote nodes but the notifications fold to %d\n  events: %v", seen, len(r.Nodes), tailStr(r.Log, 16))
	}
}

type concWitness struct {
	Prop    string     `json:"prop"`
	Kind    string     `json:"kind"`
	Seed    int64      `json:"seed"`
	Scripts [][]concOp `json:"scripts"`
	Sig     string     `json:"sig"`
	What    string     `json:"what"`
}

// c14ConcRound runs one round; it returns the first failure (sig, what), the
// scripts, and the number of watcher events and of notifications that were
// delivered while another feeder was inside the observer (a measure of overlap).
func c14ConcRound(seed int64) (sig, what string, scripts [][]concOp, events int64, kinds map[string]int64) {
	r := rand.New(rand.NewSource(seed))
	m := 3 + r.Intn(3)
	owners := make([]*gossip.VNode, m)
	for i := range owners {
		owners[i] = gossip.NewVNode(gossip.VNodeConfig{ID: fmt.Sprintf("o%d", i), Addr: fmt.Sprintf("10.0.0.%d:7000", i+1), MaxPacketSize: 1400, FailureDetector: &flipFD{}})
		for k := 0; k < 1+r.Intn(4); k++ {
			owners[i].UpsertLocal(fmt.Sprintf("k%d", k), fmt.Sprintf("v%d", r.Intn(100)))
		}
		if r.Intn(3) == 0 {
			owners[i].DeleteLocal("k0")
		}
	}
	// the owners know each other completely
	for pass := 0; pass < 2; pass++ {
		for i := range owners {
			for j := range owners {
				if i != j {
					owners[i].ApplyDelta(owners[j].Delta(nil, true))
				}
			}
		}
	}
	rec := &lockedRec{r: NewRecorder("obs")}
	fd := &flipFD{}
	obs := gossip.NewVNode(gossip.VNodeConfig{ID: "obs", Addr: "10.0.1.1:7000", MaxPacketSize: 1400, FailureDetector: fd, Watcher: rec})

	g := 3 + r.Intn(3)
	scripts = make([][]concOp, g)
	left := false
	for i := range scripts {
		nops := 2 + r.Intn(6)
		for j := 0; j < nops; j++ {
			op := concOp{Owner: r.Intn(m)}
			switch x := r.Intn(100); {
			case x < 28:
				op.Kind = "digest"
			case x < 50:
				op.Kind = "delta"
			case x < 64:
				op.Kind = "fulldelta"
			case x < 74:
				op.Kind, op.Key, op.Val = "upsert", fmt.Sprintf("k%d", r.Intn(5)), fmt.Sprintf("w%d", r.Intn(1000))
			case x < 81:
				op.Kind, op.Key = "delete", fmt.Sprintf("k%d", r.Intn(5))
			case x < 85:
				op.Kind = "compact"
			case x < 87 && !left:
				op.Kind = "leave"
				left = true
			case x < 92:
				op.Kind = "liveness"
			case x < 96:
				op.Kind = "flip"
			default:
				op.Kind = "expire"
			}
			if op.Kind == "" {
				op.Kind = "digest"
			}
			scripts[i] = append(scripts[i], op)
		}
	}
	var wg sync.WaitGroup
	start := make(chan struct{})
	for i := range scripts {
		wg.Add(1)
		go func(ops []concOp) {
			defer wg.Done()
			<-start
			for _, op := range ops {
				o := owners[op.Owner]
				switch op.Kind {
				case "digest":
					obs.ApplyDigest(o.Digest())
				case "delta":
					obs.ApplyDelta(o.Delta(obs.Digest(), true))
				case "fulldelta":
					obs.ApplyDelta(o.Delta(nil, true))
				case "upsert":
					o.UpsertLocal(op.Key, op.Val)
				case "delete":
					o.DeleteLocal(op.Key)
				case "compact":
					o.CompactLocal(1)
				case "leave":
					o.LeaveLocal()
				case "liveness":
					obs.UpdateLiveness(10)
				case "flip":
					fd.gen.Add(1)
				case "expire":
					obs.RemoveExpiredAt(time.Now().Add(2 * time.Hour))
				}
			}
		}(scripts[i])
	}
	close(start)
	wg.Wait()
	rec.mu.Lock()
	defer rec.mu.Unlock()
	compareFold(obs, "obs", rec.r, func(s, format string, a ...any) {
		if sig == "" {
			sig, what = s, fmt.Sprintf(format, a...)
		}
	})
	return sig, what, scripts, rec.r.Events, rec.r.Kinds
}

func runC14Concurrent(sh *core.Shard, a props.Args) bool {
	rounds := a.Pick(40000, 1500000)
	for i := 0; i < rounds; i++ {
		if !a.Mine(i) {
			continue
		}
		seed := a.CaseSeed(1_000_000 + i)
		sig, what, scripts, events, kinds := c14ConcRound(seed)
		sh.Count("concurrent_rounds", 1)
		sh.Count("concurrent_watcher_events", events)
		for k, v := range kinds {
			sh.Count("concurrent_"+k+"_events", v)
		}
		if sig != "" {
			fmt.Printf("CASE C14 concurrent round=%d seed=%d\n", i, seed)
			sh.Violate(sig, fmt.Sprintf("concurrent feeding, round %d (%d goroutines): %s", i, len(scripts), what),
				concWitness{Prop: "C14", Kind: "concurrent", Seed: seed, Scripts: scripts, Sig: sig, What: what})
			return false
		}
	}
	return true
}
