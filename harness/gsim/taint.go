package gsim

import (
	"github.com/andydunstall/piko/pkg/gossip"
)

// TaintTracker evaluates the signature of known finding F3
// ("delta-base-ahead-of-view") from datagram provenance.
//
// A pair (observer P, owner O) becomes tainted when P applies a delta whose
// base version for O - the version P advertised in the digest the delta
// answers - is greater than P's version of O at the time of application. That
// is only possible when P's view of O was reset by an expiry in between, and
// it leaves a permanent gap in P's view that the protocol cannot repair. The
// taint travels with relays: a delta (or join response) computed from a
// tainted view taints its receiver for that owner. It ends when P expires O.
type TaintTracker struct {
	tainted map[[2]int]bool
	lastV   map[[2]int]uint64
	// digests delivered so far: id -> (bytes, taint snapshot of the responder)
	digests map[int]*deliveredDigest
	// history of the taint set, one entry per step after which it differed from
	// the entry before: a delta carries the taints its emitter had when it was
	// EMITTED (Action.EmitStep), which is not when the digest it answers was last
	// delivered - a duplicated digest is answered twice, possibly from different
	// views (before and after the responder expired the owner).
	hist   []taintHist
	Events int
}

type taintHist struct {
	step int
	set  map[[2]int]bool
}

// taintsOfBefore returns the owners for which node p was tainted after the last
// step before `step`.
func (t *TaintTracker) taintsOfBefore(p, step int) map[int]bool {
	out := map[int]bool{}
	for i := len(t.hist) - 1; i >= 0; i-- {
		if t.hist[i].step < step {
			for pair := range t.hist[i].set {
				if pair[0] == p {
					out[pair[1]] = true
				}
			}
			break
		}
	}
	return out
}

func sameTaintSet(a, b map[[2]int]bool) bool {
	if len(a) != len(b) {
		return false
	}
	for k := range a {
		if !b[k] {
			return false
		}
	}
	return true
}

type deliveredDigest struct {
	bytes     []byte
	responder int
	taintSnap map[int]bool // owners for which the responder was tainted
}

func NewTaintTracker() *TaintTracker {
	return &TaintTracker{tainted: map[[2]int]bool{}, lastV: map[[2]int]uint64{}, digests: map[int]*deliveredDigest{}}
}

func (t *TaintTracker) Tainted(p, o int) bool { return t.tainted[[2]int{p, o}] }

func (t *TaintTracker) Any() bool { return len(t.tainted) > 0 }

func (t *TaintTracker) taint(s *Sim, p, o int) {
	if p == o {
		return
	}
	if !t.tainted[[2]int{p, o}] {
		t.tainted[[2]int{p, o}] = true
		t.Events++
		s.Stats["taint_events"]++
	}
}

func (t *TaintTracker) idx(s *Sim, id string) int {
	for _, n := range s.Nodes {
		if n.ID == id {
			return n.Idx
		}
	}
	return -1
}

func (t *TaintTracker) AfterStep(s *Sim, a *Action) {
	// 1. taints end when the view is gone
	for pair := range t.tainted {
		if _, ok := s.Nodes[pair[0]].V.Node(s.Nodes[pair[1]].ID); !ok {
			delete(t.tainted, pair)
		}
	}
	switch a.Kind {
	case "deliver":
		if len(a.Bytes) < 1 {
			break
		}
		if a.Bytes[0] == 1 {
			snap := map[int]bool{}
			for pair := range t.tainted {
				if pair[0] == a.Node {
					snap[pair[1]] = true
				}
			}
			t.digests[a.DgID] = &deliveredDigest{bytes: a.Bytes, responder: a.Node, taintSnap: snap}
		} else if a.Bytes[0] == 2 {
			_, _, dl, err := gossip.VDecodeDelta(a.Bytes)
			if err != nil {
				break
			}
			var base map[string]uint64
			var snap map[int]bool
			if dd, ok := t.digests[a.Answers]; ok {
				if _, _, _, dg, err := gossip.VDecodeDigest(dd.bytes); err == nil {
					base = map[string]uint64{}
					for _, e := range dg {
						base[e.ID] = e.Version
					}
				}
				snap = dd.taintSnap
			}
			if a.EmitStep > 0 {
				snap = t.taintsOfBefore(a.Src, a.EmitStep)
			}
			for _, de := range dl {
				o := t.idx(s, de.ID)
				if o < 0 || o == a.Node || len(de.Entries) == 0 {
					continue
				}
				before := t.lastV[[2]int{a.Node, o}] // 0 when the view was absent
				lastEntry := de.Entries[len(de.Entries)-1].Version
				if lastEntry <= before {
					continue // nothing applied
				}
				if b, ok := base[de.ID]; ok && b > before {
					t.taint(s, a.Node, o)
				}
				if snap[o] {
					t.taint(s, a.Node, o)
				}
			}
		}
	case "join":
		// the join response is computed from the peer's whole view
		for pair := range t.tainted {
			if pair[0] == a.Peer {
				o := pair[1]
				if o == a.Node {
					continue
				}
				before := t.lastV[[2]int{a.Node, o}]
				if st, ok := s.Nodes[a.Node].V.Node(s.Nodes[o].ID); ok && st.Version > before {
					t.taint(s, a.Node, o)
				}
			}
		}
	}
	if len(t.hist) == 0 || !sameTaintSet(t.hist[len(t.hist)-1].set, t.tainted) {
		cp := make(map[[2]int]bool, len(t.tainted))
		for k := range t.tainted {
			cp[k] = true
		}
		t.hist = append(t.hist, taintHist{step: s.Step, set: cp})
	}
	// 2. remember versions for the next step
	for _, p := range s.Nodes {
		if !p.Started {
			continue
		}
		for _, o := range s.Nodes {
			if o.Idx == p.Idx {
				continue
			}
			pair := [2]int{p.Idx, o.Idx}
			if st, ok := p.V.Node(o.ID); ok {
				t.lastV[pair] = st.Version
			} else {
				delete(t.lastV, pair)
			}
		}
	}
}
