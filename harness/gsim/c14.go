package gsim

import (
	"encoding/json"
	"fmt"
	"math/rand"
	"time"

	"verif/harness/core"
	"verif/harness/props"
)

func c14Monitors(s *Sim) {
	s.Monitors = append(s.Monitors, &C14Monitor{})
	s.EmitMons = append(s.EmitMons, &EmissionMonitor{})
}

func runC14(sh *core.Shard, a props.Args) {
	if !runC14Concurrent(sh, a) {
		return
	}
	runs := a.Pick(400, 16000)
	steps := a.Pick(600, 1500)
	for i := 0; i < runs; i++ {
		if !a.Mine(i) {
			continue
		}
		seed := a.CaseSeed(i)
		r := rand.New(rand.NewSource(seed))
		n := 3 + r.Intn(2)
		if a.Thorough() {
			n = 2 + r.Intn(5)
		}
		cfg := Config{N: n, MaxPacketSize: pickPacketSize(r), Streams: i%3 == 0, Seed: seed}
		if i%4 == 1 {
			cfg.LateStart = n - 1
		}
		fmt.Printf("CASE C14 run=%d cfg=%+v\n", i, cfg)
		s := New(cfg)
		c14Monitors(s)
		s.Bootstrap(r.Intn(2) == 0)
		p := fullProfile()
		// more deletes and compactions: the interesting notifications
		p.Delete, p.Compact = 9, 5
		if i%2 == 0 {
			// half of the runs without membership churn, so long histories of
			// one view are folded
			p.Crash, p.LeaveLocal, p.LeaveTo, p.SweepLate, p.SweepUpto, p.SweepDue, p.Tick, p.Liveness = 0, 0, 0, 0, 0, 0, 0, 0
		}
		for s.Step < steps && !s.Failed() {
			if !s.RandomStep(p) {
				break
			}
		}
		sh.Eval()
		addStats(sh, s)
		if i < 2 {
			sh.Sample(map[string]any{"cfg": cfg, "stats": s.Stats, "watcher_log_tail_n0": tailStr(s.Nodes[0].Rec.Log, 20)})
		}
		if s.Stats["compactions"] > 0 && s.Stats["truncated_deltas"] > 0 {
			var ev int64
			for _, nd := range s.Nodes {
				if nd.Rec != nil {
					ev += nd.Rec.Events
				}
			}
			sh.Nontrivial(core.Hash(cfg.N, cfg.MaxPacketSize, ev, s.Stats["compactions"], s.Stats["truncated_deltas"], finalHash(s)))
		}
		reportFailures(sh, "C14", s, "")
		s.Close()
	}
}

func init() {
	props.Register(&props.Prop{
		ID: "C14", Level: "exploration",
		Rule: "simulator runs (writes incl. empty values and re-creation of deleted keys, deletes, compaction, leave, crash, liveness, early/due/late/partial sweeps, late-starting nodes, loss/dup/delay/truncation, stream join/leave) with a recording watcher per node; after every step the notifications folded in order (join/leave/reachable/unreachable/upsert/delete/expired) must equal the node's visible view: same remote node set, per node the same non-deleted non-internal key/values, same left/unreachable flags; plus per-callback rules (join precedes keys, no callback about the local node or an unknown/expired node, no double join). Concurrent leg: per round the recorded order must satisfy the per-callback rules and fold == view after all feeders returned. Non-trivial = the run had compactions and truncated deltas; distinct = hash of (config, number of watcher events, event counts, final states).",
		Assumptions: []string{
			"watcher callbacks are folded by a model that ignores deletes of keys it never held (a map delete)",
			"the simulator legs use a sequentially consistent scheduler; the concurrent leg (fresh observer fed digests/deltas of mutually known owners from 3-5 goroutines released together, owners writing/deleting/compacting/leaving meanwhile, failure detector flips, liveness and expiry sweeps) is judged at quiescence only, with the OS scheduler choosing the interleavings",
		},
		RequireCounters: []string{"watcher_events", "compactions", "truncated_deltas", "watcher_expired_events", "watcher_delete_events", "watcher_unreachable_events", "watcher_reachable_events", "watcher_leave_events", "concurrent_rounds", "concurrent_join_events", "concurrent_upsert_events", "concurrent_delete_events", "concurrent_leave_events", "concurrent_unreachable_events", "concurrent_expired_events"},
		Timeout:         simTimeout(10*time.Minute, 90*time.Minute),
		Run:             runC14,
		Replay: func(raw json.RawMessage) (string, bool) {
			var cw concWitness
			if json.Unmarshal(raw, &cw) == nil && cw.Kind == "concurrent" {
				// the schedule is the operating system's: replay repeats the round
				for i := 0; i < 20000; i++ {
					if sig, what, _, _, _ := c14ConcRound(cw.Seed); sig != "" {
						return fmt.Sprintf("[%s] %s (repetition %d)", sig, what, i), true
					}
				}
				return "20000 repetitions of the round showed nothing; recorded: [" + cw.Sig + "] " + cw.What, false
			}
			return replayWith(c14Monitors)(raw)
		},
	})
}
