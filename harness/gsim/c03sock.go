package gsim

import (
	"fmt"
	"math/rand"
	"net"
	"strings"
	"time"

	"github.com/andydunstall/piko/pkg/gossip"
	"github.com/andydunstall/piko/pkg/log"

	"verif/harness/core"
)

// Real-socket leg of C03: three gossip.New instances over loopback UDP/TCP (the
// real Serve loops, read buffers and timers, which the simulator bypasses) with a
// maximum packet size drawn from 600 B to 16 KiB and values of up to a third of
// it. A seeded history of writes, deletes and compactions is applied, then
// updates stop. Bounded restatement of "converges": with a 5 ms gossip interval
// the views must equal the owners' states within 60 s (thousands of rounds); the
// verdict is "stalled" only if, in addition, no view changed during the last 15 s.

type sockWitness struct {
	Prop string `json:"prop"`
	Kind string `json:"kind"`
	Seed int64  `json:"seed"`
	Max  int    `json:"max_packet_size"`
	What string `json:"what"`
}

type cntWatcher struct{}

func (cntWatcher) OnJoin(string)                      {}
func (cntWatcher) OnLeave(string)                     {}
func (cntWatcher) OnReachable(string)                 {}
func (cntWatcher) OnUnreachable(string)               {}
func (cntWatcher) OnUpsertKey(string, string, string) {}
func (cntWatcher) OnDeleteKey(string, string)         {}
func (cntWatcher) OnExpired(string)                   {}

func c03SocketRound(seed int64) (sig, what string, max int, inconclusive string) {
	r := rand.New(rand.NewSource(seed))
	max = []int{600, 1400, 1400, 2048, 4096, 8192, 16384}[r.Intn(7)]
	const N = 3
	var gs []*gossip.Gossip
	defer func() {
		for _, g := range gs {
			g.Close()
		}
	}()
	for i := 0; i < N; i++ {
		sln, pln, err := ListenPair()
		if err != nil {
			return "", "", max, err.Error()
		}
		conf := &gossip.Config{BindAddr: sln.Addr().String(), AdvertiseAddr: sln.Addr().String(), Interval: 5 * time.Millisecond, MaxPacketSize: max}
		gs = append(gs, gossip.New(fmt.Sprintf("s%d", i), conf, sln, pln, cntWatcher{}, log.NewNopLogger()))
	}
	for i := 1; i < N; i++ {
		if _, err := gs[i].Join([]string{gs[0].LocalNode().Addr}); err != nil {
			return "", "", max, "join: " + err.Error()
		}
	}
	// history: written after the join, so it travels by datagrams
	for op := 0; op < 60+r.Intn(200); op++ {
		g := gs[r.Intn(N)]
		key := fmt.Sprintf("k%d", r.Intn(12))
		switch x := r.Intn(10); {
		case x < 6:
			size := r.Intn(40)
			if r.Intn(5) == 0 {
				size = r.Intn(max / 3) // every single entry still fits a datagram (F1 is a known finding)
			}
			g.UpsertLocal(key, strings.Repeat("v", size))
		case x < 9:
			g.DeleteLocal(key)
		default:
			gossip.VWrap(g).CompactLocal(1 + r.Intn(3))
		}
		if r.Intn(8) == 0 {
			time.Sleep(time.Duration(r.Intn(3)) * time.Millisecond)
		}
	}
	snapshot := func() (string, bool) {
		all := true
		var b strings.Builder
		for pi, p := range gs {
			for oi, o := range gs {
				if pi == oi {
					continue
				}
				own := o.LocalNode()
				st, known := p.Node(own.ID)
				if !known {
					fmt.Fprintf(&b, "s%d does not know s%d; ", pi, oi)
					all = false
					continue
				}
				fmt.Fprintf(&b, "s%d sees s%d at %d/%d with %d/%d entries; ", pi, oi, st.Version, own.Version, len(st.Entries), len(own.Entries))
				if st.Version != own.Version || !sameKV(visibleKV(st), visibleKV(own)) {
					all = false
				}
			}
		}
		return b.String(), all
	}
	start := time.Now()
	last, lastChange := "", time.Now()
	for {
		cur, ok := snapshot()
		if ok {
			return "", "", max, ""
		}
		if cur != last {
			last, lastChange = cur, time.Now()
		}
		if time.Since(start) > 60*time.Second && time.Since(lastChange) > 15*time.Second {
			return "no-convergence", fmt.Sprintf("real sockets, max packet size %d: updates stopped %s ago and no view has changed for %s: %s", max, time.Since(start).Round(time.Second), time.Since(lastChange).Round(time.Second), cur), max, ""
		}
		if time.Since(start) > 5*time.Minute {
			return "", "", max, "views still changing after 5 min: " + cur
		}
		time.Sleep(10 * time.Millisecond)
	}
}

func runC03Sockets(sh *core.Shard, rounds int, mine func(int) bool, caseSeed func(int) int64) bool {
	for i := 0; i < rounds; i++ {
		if !mine(i) {
			continue
		}
		seed := caseSeed(7_000_000 + i)
		sig, what, max, inc := c03SocketRound(seed)
		sh.Eval()
		if inc != "" {
			sh.Inconcl("socket round %d: %s", i, inc)
			continue
		}
		if sig != "" {
			fmt.Printf("CASE C03 sockets round=%d seed=%d\n", i, seed)
			sh.Violate(sig, what, sockWitness{Prop: "C03", Kind: "sockets", Seed: seed, Max: max, What: what})
			return false
		}
		sh.Count("socket_rounds_converged", 1)
		if max > 2048 {
			sh.Count("socket_rounds_with_large_packets", 1)
		}
	}
	return true
}


// ListenPair opens a TCP listener and a UDP socket on the same loopback port
// (gossip uses one address for both); the UDP port of a freshly assigned TCP
// port may be taken, so it retries.
func ListenPair() (net.Listener, *net.UDPConn, error) {
	var lastErr error
	for try := 0; try < 20; try++ {
		sln, err := net.Listen("tcp", "127.0.0.1:0")
		if err != nil {
			lastErr = err
			continue
		}
		pln, err := net.ListenUDP("udp", &net.UDPAddr{IP: net.IPv4(127, 0, 0, 1), Port: sln.Addr().(*net.TCPAddr).Port})
		if err != nil {
			sln.Close()
			lastErr = err
			continue
		}
		return sln, pln, nil
	}
	return nil, nil, lastErr
}
