package gsim

import (
	"fmt"
	"math/rand"
	"strings"

	"github.com/andydunstall/piko/pkg/gossip"
)

// Profile holds the scheduler weights of a run.
type Profile struct {
	Upsert, Delete, Compact, LeaveLocal int
	Gossip, Deliver, Drop, Dup          int
	Join, LeaveTo                       int
	Tick, Liveness                      int
	SweepEarly, SweepLate, SweepUpto    int
	SweepDue                            int
	Crash                               int
	EpAdd, EpRemove                     int
	Start                               int
	Forge                               int // a datagram about the receiver itself (stale echo / forged)
	Keys                                int // size of the key pool per node
	MaxVal                              int // maximum value length
	MaxInflight                         int
	MaxCrashes                          int
	MaxLeaves                           int
}

func (p *Profile) defaults() {
	if p.Keys == 0 {
		p.Keys = 5
	}
	if p.MaxVal == 0 {
		p.MaxVal = 40
	}
	if p.MaxInflight == 0 {
		p.MaxInflight = 30
	}
}

var unicodeBits = []string{"é", "ß", "日本", "🚀", "\u0000", " ", "\n", "\"", "\\"}

// RandValue draws a value: small integers, empty strings, ascii and unicode of
// varying length.
func RandValue(r *rand.Rand, max int) string {
	switch r.Intn(10) {
	case 0:
		return ""
	case 1, 2, 3:
		return fmt.Sprint(r.Intn(4))
	case 4:
		n := r.Intn(max + 1)
		var sb strings.Builder
		for sb.Len() < n {
			sb.WriteString(unicodeBits[r.Intn(len(unicodeBits))])
		}
		return sb.String()
	default:
		n := r.Intn(max + 1)
		b := make([]byte, n)
		for i := range b {
			b[i] = byte('a' + r.Intn(26))
		}
		return string(b)
	}
}

func RandKey(r *rand.Rand, pool int) string {
	k := r.Intn(pool)
	switch {
	case k == pool-1 && r.Intn(3) == 0:
		return "ключ-" + fmt.Sprint(r.Intn(2))
	case k == 0 && r.Intn(8) == 0:
		return "long-" + strings.Repeat("k", 20+r.Intn(60))
	}
	return "k" + fmt.Sprint(k)
}

// Introduce makes node i discover node j through a real digest datagram that
// lists only j (the discovery path of ApplyDigest).
func (s *Sim) Introduce(i, j int) {
	pj := s.Nodes[j]
	b, err := gossip.VEncodeDigest(pj.ID, pj.Addr, false,
		[]gossip.VDigestEntry{{ID: pj.ID, Addr: pj.Addr, Version: 0}}, 1<<16)
	if err != nil {
		panic("VERIF-HARNESS-ERROR encode: " + err.Error())
	}
	s.nextDg++
	s.Apply(Action{Kind: "deliver", Node: i, Bytes: b, DgID: s.nextDg, Src: j})
	// the (empty) delta answer is not interesting
	s.dropAnswersTo(s.nextDg)
}

func (s *Sim) dropAnswersTo(id int) {
	out := s.Inflight[:0]
	for _, d := range s.Inflight {
		if d.Answers != id {
			out = append(out, d)
		}
	}
	s.Inflight = out
}

func (s *Sim) activeNodes() []*SimNode {
	var out []*SimNode
	for _, n := range s.Nodes {
		if n.Started && n.Alive {
			out = append(out, n)
		}
	}
	return out
}

// RandomStep picks and applies one action according to the profile. Returns
// false if nothing could be done.
func (s *Sim) RandomStep(p *Profile) bool {
	p.defaults()
	r := s.Rng
	act := s.activeNodes()
	if len(act) == 0 {
		return false
	}
	if len(s.Inflight) > p.MaxInflight {
		i := r.Intn(len(s.Inflight))
		if r.Intn(4) == 0 {
			s.Drop(i)
		} else {
			s.Deliver(i, false)
		}
		return true
	}
	type choice struct {
		w int
		k string
	}
	cs := []choice{
		{p.Upsert, "upsert"}, {p.Delete, "delete"}, {p.Compact, "compact"}, {p.LeaveLocal, "leaveLocal"},
		{p.Gossip, "gossip"}, {p.Join, "join"}, {p.LeaveTo, "leaveTo"},
		{p.Tick, "tick"}, {p.Liveness, "liveness"},
		{p.SweepEarly, "sweepEarly"}, {p.SweepDue, "sweepDue"}, {p.SweepLate, "sweepLate"}, {p.SweepUpto, "sweepUpto"},
		{p.Crash, "crash"}, {p.EpAdd, "epAdd"}, {p.EpRemove, "epRemove"}, {p.Start, "start"},
		{p.Forge, "forge"},
	}
	if len(s.Inflight) > 0 {
		cs = append(cs, choice{p.Deliver, "deliver"}, choice{p.Drop, "drop"}, choice{p.Dup, "dup"})
	}
	total := 0
	for _, c := range cs {
		total += c.w
	}
	if total == 0 {
		return false
	}
	for attempt := 0; attempt < 20; attempt++ {
		x := r.Intn(total)
		kind := ""
		for _, c := range cs {
			if x < c.w {
				kind = c.k
				break
			}
			x -= c.w
		}
		n := act[r.Intn(len(act))]
		switch kind {
		case "upsert":
			if n.Left {
				continue
			}
			s.Apply(Action{Kind: "upsert", Node: n.Idx, Key: RandKey(r, p.Keys), Val: RandValue(r, p.MaxVal)})
		case "delete":
			if n.Left {
				continue
			}
			s.Apply(Action{Kind: "delete", Node: n.Idx, Key: RandKey(r, p.Keys)})
		case "compact":
			s.Apply(Action{Kind: "compact", Node: n.Idx, Th: 1 + r.Intn(3)})
		case "leaveLocal":
			left := 0
			for _, m := range s.Nodes {
				if m.Left {
					left++
				}
			}
			if n.Left || left >= p.MaxLeaves {
				continue
			}
			s.Apply(Action{Kind: "leaveLocal", Node: n.Idx})
		case "gossip":
			metas := n.V.Nodes()
			var cands []int
			for _, m := range metas {
				if m.ID == n.ID {
					continue
				}
				if m.Left && r.Intn(4) != 0 {
					continue
				}
				for _, o := range s.Nodes {
					if o.ID == m.ID {
						cands = append(cands, o.Idx)
					}
				}
			}
			if len(cands) == 0 {
				continue
			}
			s.Apply(Action{Kind: "gossip", Node: n.Idx, Peer: cands[r.Intn(len(cands))]})
		case "deliver":
			s.Deliver(r.Intn(len(s.Inflight)), false)
		case "dup":
			s.Deliver(r.Intn(len(s.Inflight)), true)
		case "drop":
			s.Drop(r.Intn(len(s.Inflight)))
		case "join", "leaveTo":
			if !s.Cfg.Streams {
				continue
			}
			o := act[r.Intn(len(act))]
			if o.Idx == n.Idx {
				continue
			}
			if kind == "leaveTo" && !n.Left {
				continue
			}
			s.Apply(Action{Kind: kind, Node: n.Idx, Peer: o.Idx})
		case "tick":
			s.Apply(Action{Kind: "tick", Dt: int64(50 + r.Intn(1500))})
		case "liveness":
			s.Apply(Action{Kind: "liveness", Node: n.Idx})
		case "sweepEarly":
			s.Apply(Action{Kind: "sweep", Node: n.Idx, Mode: "early"})
		case "sweepDue":
			s.Apply(Action{Kind: "sweep", Node: n.Idx, Mode: "due"})
		case "sweepLate":
			s.Apply(Action{Kind: "sweep", Node: n.Idx, Mode: "late"})
		case "sweepUpto":
			var ids []string
			for _, m := range n.V.Nodes() {
				if !m.Expiry.IsZero() {
					ids = append(ids, m.ID)
				}
			}
			if len(ids) == 0 {
				continue
			}
			s.Apply(Action{Kind: "sweep", Node: n.Idx, Mode: "upto:" + ids[r.Intn(len(ids))]})
		case "crash":
			crashed := 0
			for _, m := range s.Nodes {
				if m.Started && !m.Alive {
					crashed++
				}
			}
			if crashed >= p.MaxCrashes || len(act) <= 2 {
				continue
			}
			s.Apply(Action{Kind: "crash", Node: n.Idx})
		case "epAdd":
			if n.Cluster == nil || n.Left {
				continue
			}
			s.Apply(Action{Kind: "epAdd", Node: n.Idx, Key: "e" + fmt.Sprint(r.Intn(p.Keys))})
		case "epRemove":
			if n.Cluster == nil || n.Left {
				continue
			}
			eps := n.Cluster.LocalNode().Endpoints
			if len(eps) == 0 {
				continue
			}
			var ks []string
			for k := range eps {
				ks = append(ks, k)
			}
			sortStrings(ks)
			s.Apply(Action{Kind: "epRemove", Node: n.Idx, Key: ks[r.Intn(len(ks))]})
		case "forge":
			// a delta that names the receiver itself with versions above its own: what
			// a peer echoes back to a node that restarted under the same id, or what an
			// attacker sends. It must never touch the receiver's own published state.
			o := act[r.Intn(len(act))]
			if o.Idx == n.Idx {
				continue
			}
			own := n.V.LocalNode()
			var es []gossip.Entry
			v := own.Version
			for k := 0; k < 1+r.Intn(3); k++ {
				v += uint64(1 + r.Intn(3))
				switch r.Intn(4) {
				case 0:
					es = append(es, gossip.Entry{Key: gossip.VLeftKey, Version: v, Internal: true})
				case 1:
					es = append(es, gossip.Entry{Key: gossip.VCompactKey, Value: fmt.Sprint(v - 1), Version: v, Internal: true})
				case 2:
					es = append(es, gossip.Entry{Key: RandKey(r, p.Keys), Version: v, Deleted: true})
				default:
					es = append(es, gossip.Entry{Key: RandKey(r, p.Keys), Value: "forged", Version: v})
				}
			}
			b, err := gossip.VEncodeDelta(o.ID, o.Addr, []gossip.VDeltaEntry{{ID: n.ID, Addr: n.Addr, Entries: es}}, 1<<16)
			if err != nil {
				continue
			}
			s.nextDg++
			s.Stats["forged_self_deltas"]++
			s.Apply(Action{Kind: "deliver", Node: n.Idx, Bytes: b, DgID: s.nextDg, Src: o.Idx})
		case "start":
			var cands []*SimNode
			for _, m := range s.Nodes {
				if !m.Started {
					cands = append(cands, m)
				}
			}
			if len(cands) == 0 {
				continue
			}
			m := cands[r.Intn(len(cands))]
			s.Apply(Action{Kind: "start", Node: m.Idx})
			// a started node joins through a seed member
			seedNode := act[r.Intn(len(act))]
			if s.Cfg.Streams {
				s.Apply(Action{Kind: "join", Node: m.Idx, Peer: seedNode.Idx})
			} else {
				s.Introduce(m.Idx, seedNode.Idx)
			}
		default:
			continue
		}
		return true
	}
	return false
}

func sortStrings(a []string) {
	for i := 1; i < len(a); i++ {
		for j := i; j > 0 && a[j] < a[j-1]; j-- {
			a[j], a[j-1] = a[j-1], a[j]
		}
	}
}

// Bootstrap makes the started nodes discover each other: a random connected
// introduction graph (every node is introduced to at least one earlier node).
func (s *Sim) Bootstrap(full bool) {
	var started []*SimNode
	for _, n := range s.Nodes {
		if n.Started {
			started = append(started, n)
		}
	}
	for i := 1; i < len(started); i++ {
		if full {
			for j := 0; j < i; j++ {
				s.bootstrapPair(started[i].Idx, started[j].Idx)
			}
			continue
		}
		j := s.Rng.Intn(i)
		s.bootstrapPair(started[i].Idx, started[j].Idx)
	}
}

func (s *Sim) bootstrapPair(i, j int) {
	if s.Cfg.Streams && s.Rng.Intn(2) == 0 {
		s.Apply(Action{Kind: "join", Node: i, Peer: j})
		return
	}
	s.Introduce(i, j)
}
