package gsim

import (
	"encoding/json"
	"fmt"
	"math/rand"
	"strings"
	"time"

	"github.com/andydunstall/piko/pkg/gossip"

	"verif/harness/core"
	"verif/harness/props"
)

// ---- C03: gossip converges ------------------------------------------------------------
//
// From a (possibly divergent) reachable start state local writes stop and a
// fair closure runs: sweeps in which every live node gossips once with every
// live node it knows and the three datagrams of the exchange are delivered.
// The potential
//
//	phi = sum over live ordered pairs (P,O) of (O's version - P's version of O) [+ big if P does not know O]
//
// never increases; the oracle demands phi = 0 within 200 + 4*phi0 sweeps, no
// window of stallWindow sweeps with phi > 0 unchanged, and at phi = 0 that
// every view is identical to the owner's own state.

const unknownWeight = 1 << 20
const stallWindow = 200

func (s *Sim) liveNodes() []*SimNode {
	var out []*SimNode
	for _, n := range s.Nodes {
		if n.Started && n.Alive && !n.Left {
			out = append(out, n)
		}
	}
	return out
}

func (s *Sim) phi(live []*SimNode) int64 {
	var phi int64
	for _, p := range live {
		for _, o := range live {
			if p.Idx == o.Idx {
				continue
			}
			ov := o.V.LocalNode().Version
			st, ok := p.V.Node(o.ID)
			if !ok {
				phi += unknownWeight + int64(ov)
				continue
			}
			if st.Version < ov {
				phi += int64(ov - st.Version)
			}
		}
	}
	return phi
}

// entrySize is the size of a delta datagram from sender carrying exactly this
// one entry of owner: below it the entry can never be sent.
// countExtra is how many more bytes the per-node header needs to announce n
// entries than to announce one. Measured from the real encoder (the width of
// the integer depends on the codec's choices), not assumed.
var countExtraTable = func() [][2]int {
	size := func(n int) int {
		es := make([]gossip.Entry, n)
		b, err := gossip.VEncodeDelta("a", "b", []gossip.VDeltaEntry{{ID: "c", Addr: "d", Entries: es}}, 1<<30)
		if err != nil {
			panic("VERIF-HARNESS-ERROR encode: " + err.Error())
		}
		return len(b)
	}
	one := size(1)
	per := size(2) - one
	var t [][2]int
	last := 0
	for _, n := range []int{2, 15, 16, 31, 32, 127, 128, 255, 256, 32767, 32768, 65535, 65536, 70000} {
		extra := size(n) - one - (n-1)*per
		if extra != last {
			t = append(t, [2]int{n, extra})
			last = extra
		}
	}
	return t
}()

func countExtra(n int) int {
	extra := 0
	for _, row := range countExtraTable {
		if n >= row[0] {
			extra = row[1]
		}
	}
	return extra
}

func entrySize(sender, owner *SimNode, e gossip.Entry) int {
	b, err := gossip.VEncodeDelta(sender.ID, sender.Addr, []gossip.VDeltaEntry{{ID: owner.ID, Addr: owner.Addr, Entries: []gossip.Entry{e}}}, 1<<24)
	if err != nil {
		panic("VERIF-HARNESS-ERROR encode: " + err.Error())
	}
	return len(b)
}

// feasibleSize is the smallest packet size at which the protocol can move
// every entry that is currently held anywhere, and at least one digest entry.
func (s *Sim) feasibleSize(live []*SimNode) int {
	min := 0
	for _, sender := range live {
		for _, o := range live {
			// what the sender would relay: its own view of o (or o's own state)
			var st *gossip.NodeState
			if sender.Idx == o.Idx {
				st = o.V.LocalNode()
			} else if v, ok := sender.V.Node(o.ID); ok {
				st = v
			}
			if st == nil {
				continue
			}
			for _, e := range st.Entries {
				// the node header announces how many entries are outstanding
				if n := entrySize(sender, o, e) + countExtra(len(st.Entries)); n > min {
					min = n
				}
			}
			b, _ := gossip.VEncodeDigest(sender.ID, sender.Addr, true, []gossip.VDigestEntry{{ID: o.ID, Addr: o.Addr, Version: 1 << 62, Left: true}}, 1<<24)
			if len(b) > min {
				min = len(b)
			}
		}
	}
	return min
}

func sameEntries(a, b *gossip.NodeState) bool {
	if a.Version != b.Version || len(a.Entries) != len(b.Entries) {
		return false
	}
	ea, eb := sortedEntries(a), sortedEntries(b)
	for i := range ea {
		if ea[i] != eb[i] {
			return false
		}
	}
	return true
}

// blockedByOversize reports whether P's view of O cannot advance because the
// next entry of O (as held by any live sender) does not fit an otherwise empty
// datagram: the signature of known finding F1.
func (s *Sim) blockedByOversize(live []*SimNode, p, o *SimNode) bool {
	var pv uint64
	if st, ok := p.V.Node(o.ID); ok {
		pv = st.Version
	}
	blocked := false
	for _, sender := range live {
		if sender.Idx == p.Idx {
			continue
		}
		var st *gossip.NodeState
		if sender.Idx == o.Idx {
			st = o.V.LocalNode()
		} else if v, ok := sender.V.Node(o.ID); ok {
			st = v
		}
		if st == nil || st.Version <= pv {
			continue
		}
		var next *gossip.Entry
		outstanding := 0
		for _, e := range sortedEntries(st) {
			if e.Version > pv {
				if next == nil {
					e := e
					next = &e
				}
				outstanding++
			}
		}
		if next == nil {
			continue
		}
		if entrySize(sender, o, *next)+countExtra(outstanding) > s.Cfg.MaxPacketSize {
			blocked = true
		} else {
			return false // somebody could send it
		}
	}
	return blocked
}

// connect makes the "knows" graph among the live nodes connected, as an
// operator's join would: two live nodes that only ever knew a departed node
// cannot find each other by gossip, which no gossip protocol promises.
func (s *Sim) connect(live []*SimNode) {
	comp := map[int]int{}
	var find func(int) int
	find = func(x int) int {
		if comp[x] != x {
			comp[x] = find(comp[x])
		}
		return comp[x]
	}
	for _, n := range live {
		comp[n.Idx] = n.Idx
	}
	for _, p := range live {
		for _, o := range live {
			if p.Idx != o.Idx && s.Knows(p.Idx, o.Idx) {
				comp[find(p.Idx)] = find(o.Idx)
			}
		}
	}
	root := find(live[0].Idx)
	for _, n := range live[1:] {
		if find(n.Idx) != root {
			s.Introduce(n.Idx, live[0].Idx)
			comp[find(n.Idx)] = root
			s.Stats["closure_links_added"]++
		}
	}
}

// Closure runs the fair closure and judges it. taint may be nil.
func (s *Sim) Closure(taint *TaintTracker, expiryRun bool) {
	live := s.liveNodes()
	if len(live) < 2 {
		return
	}
	s.connect(live)
	phi0 := s.phi(live)
	bound := int64(200) + 4*(phi0%unknownWeight) + 8*(phi0/unknownWeight)
	s.Stats["closure_phi0_total"] += phi0 % unknownWeight
	s.Stats["closures"]++
	if phi0 > 0 {
		s.Stats["closures_from_divergent_state"]++
	}
	last, lastChange := phi0, int64(0)
	var sweep int64
	for sweep = 0; ; sweep++ {
		phi := s.phi(live)
		if phi > last {
			s.Fail("potential-increased", "closure sweep %d: potential rose from %d to %d (a view moved backwards or a node was forgotten)", sweep, last, phi)
			return
		}
		if phi < last {
			last, lastChange = phi, sweep
		}
		if phi == 0 {
			break
		}
		if sweep-lastChange >= stallWindow || sweep > bound {
			s.judgeStall(live, taint, sweep, phi, phi0, sweep > bound)
			return
		}
		if expiryRun {
			for _, p := range live {
				s.Apply(Action{Kind: "liveness", Node: p.Idx})
			}
		}
		order := s.Rng.Perm(len(live))
		for _, i := range order {
			p := live[i]
			for _, j := range s.Rng.Perm(len(live)) {
				o := live[j]
				if o.Idx == p.Idx || !s.Knows(p.Idx, o.Idx) {
					continue
				}
				s.Exchange(p.Idx, o.Idx)
				if s.Failed() {
					return
				}
			}
		}
	}
	s.Stats["closure_sweeps_total"] += sweep
	if sweep > s.Stats["closure_sweeps_max"] {
		s.Stats["closure_sweeps_max"] = sweep
	}
	// phi == 0: exact equality
	for _, p := range live {
		for _, o := range live {
			if p.Idx == o.Idx {
				continue
			}
			st, ok := p.V.Node(o.ID)
			ov := o.V.LocalNode()
			if !ok || !sameEntries(st, ov) {
				if taint != nil && taint.Tainted(p.Idx, o.Idx) {
					s.Known["delta-base-ahead-of-view"]++
					continue
				}
				view := "unknown"
				if ok {
					view = stateString(st)
				}
				s.Fail("converged-but-different", "after %d sweeps n%d reports n%d's version %d but the view differs from the owner's state\n  view:  %s\n  owner: %s", sweep, p.Idx, o.Idx, ov.Version, view, stateString(ov))
				return
			}
			if st.Left || (!expiryRun && st.Unreachable) {
				s.Fail("converged-but-flagged", "after convergence n%d flags live node n%d left=%v unreachable=%v", p.Idx, o.Idx, st.Left, st.Unreachable)
				return
			}
			s.Stats["pairs_converged_exactly"]++
		}
	}
}

func (s *Sim) judgeStall(live []*SimNode, taint *TaintTracker, sweep, phi, phi0 int64, overBound bool) {
	unexplained := 0
	var first string
	for _, p := range live {
		for _, o := range live {
			if p.Idx == o.Idx {
				continue
			}
			ov := o.V.LocalNode()
			st, ok := p.V.Node(o.ID)
			if ok && st.Version >= ov.Version {
				continue
			}
			if s.blockedByOversize(live, p, o) {
				s.Known["oversize-entry"]++
				continue
			}
			unexplained++
			if first == "" {
				view := "unknown"
				if ok {
					view = stateString(st)
				}
				first = fmt.Sprintf("n%d's view of n%d: %s\n  owner: %s", p.Idx, o.Idx, view, stateString(ov))
			}
		}
	}
	if unexplained == 0 {
		return
	}
	why := fmt.Sprintf("no progress for %d sweeps", stallWindow)
	if overBound {
		why = "sweep bound exceeded"
	}
	s.Fail("no-convergence", "closure stalled (%s) at sweep %d with potential %d (initially %d), max packet size %d, %d lagging pairs not explained by an oversize entry; first: %s", why, sweep, phi, phi0, s.Cfg.MaxPacketSize, unexplained, first)
}

func c03Monitors(s *Sim) {
	t := NewTaintTracker()
	m := NewC02Monitor()
	m.Taint = t
	m.AllowReset = true
	s.Monitors = append(s.Monitors, t, m)
	s.EmitMons = append(s.EmitMons, &EmissionMonitor{})
}

func bigValue(r *rand.Rand, n int) string {
	var sb strings.Builder
	for sb.Len() < n {
		if r.Intn(5) == 0 {
			sb.WriteString(unicodeBits[r.Intn(len(unicodeBits))])
		} else {
			sb.WriteByte(byte('a' + r.Intn(26)))
		}
	}
	return sb.String()
}

// f1Probe: an owner publishes an entry that cannot fit a datagram.
func f1Probe() *Sim {
	cfg := Config{N: 3, MaxPacketSize: 400, Seed: 11}
	s := New(cfg)
	c03Monitors(s)
	s.Bootstrap(true)
	s.Apply(Action{Kind: "upsert", Node: 0, Key: "proxy_addr", Val: "10.0.0.1:8000"})
	s.Apply(Action{Kind: "upsert", Node: 0, Key: "endpoint:" + strings.Repeat("x", 500), Val: "1"})
	s.Apply(Action{Kind: "upsert", Node: 0, Key: "endpoint:small", Val: "1"})
	s.Apply(Action{Kind: "upsert", Node: 1, Key: "k", Val: "v"})
	s.Closure(nil, false)
	return s
}

func runC03(sh *core.Shard, a props.Args) {
	if !runC03Sockets(sh, a.Pick(48, 1600), a.Mine, a.CaseSeed) {
		return
	}
	runs := a.Pick(320, 8000)
	if a.Shard == 0 {
		s := f1Probe()
		addStats(sh, s)
		sh.Eval()
		if s.Known["oversize-entry"] == 0 {
			sh.Note("F1 probe: an entry larger than the packet size no longer stalls its owner (finding not re-observed)")
		}
		reportFailures(sh, "C03", s, "f1-probe")
		s.Close()
		s = f3Probe(c03Monitors, false)
		if !s.Failed() {
			for _, m := range s.Monitors {
				if t, ok := m.(*TaintTracker); ok {
					s.Closure(t, true)
				}
			}
		}
		addStats(sh, s)
		sh.Eval()
		reportFailures(sh, "C03", s, "f3-probe")
		s.Close()
	}
	for i := 0; i < runs; i++ {
		if !a.Mine(i) {
			continue
		}
		seed := a.CaseSeed(i)
		r := rand.New(rand.NewSource(seed))
		n := 3 + r.Intn(2)
		if a.Thorough() {
			n = 2 + r.Intn(5)
		}
		variant := []string{"lossy-history", "lossy-history", "shaped", "expiry-history"}[i%4]
		cfg := Config{N: n, MaxPacketSize: 1400, Streams: i%5 == 0, Seed: seed}
		if variant == "shaped" && i%8 == 2 {
			cfg.LateStart = n - 1
		}
		fmt.Printf("CASE C03 run=%d variant=%s cfg=%+v\n", i, variant, cfg)
		s := New(cfg)
		c03Monitors(s)
		var taint *TaintTracker
		for _, m := range s.Monitors {
			if t, ok := m.(*TaintTracker); ok {
				taint = t
			}
		}
		steps := a.Pick(300, 700) + r.Intn(300)
		switch variant {
		case "lossy-history":
			s.Bootstrap(r.Intn(3) == 0)
			// history under a random packet size, with heavy loss
			s.Apply(Action{Kind: "setMax", Th: pickPacketSize(r)})
			p := c02Profile()
			p.Drop = 6 + r.Intn(30)
			p.MaxVal = []int{40, 40, 200, 600}[r.Intn(4)]
			for s.Step < steps && !s.Failed() {
				if !s.RandomStep(p) {
					break
				}
			}
			if r.Intn(2) == 0 {
				s.DropAll()
			}
		case "shaped":
			// a chain: every node only knows its predecessor
			s.Bootstrap(false)
			big := r.Intn(n)
			if !s.Nodes[big].Started {
				big = 0
			}
			entries := []int{5, 40, 150, 500}[r.Intn(4)]
			if !a.Thorough() && entries == 500 {
				entries = 150
			}
			for k := 0; k < entries && !s.Failed(); k++ {
				key := fmt.Sprintf("k%d", r.Intn(entries))
				if r.Intn(10) == 0 {
					key = "ключ-" + fmt.Sprint(r.Intn(20))
				}
				switch r.Intn(6) {
				case 0:
					s.Apply(Action{Kind: "delete", Node: big, Key: key})
				default:
					s.Apply(Action{Kind: "upsert", Node: big, Key: key, Val: bigValue(r, r.Intn(601))})
				}
				if k%25 == 24 && r.Intn(2) == 0 {
					s.Apply(Action{Kind: "compact", Node: big, Th: 1})
					// somebody sees an intermediate state
					o := (big + 1 + r.Intn(n-1)) % n
					if s.Nodes[o].Started && s.Knows(o, big) {
						s.Apply(Action{Kind: "gossip", Node: o, Peer: big})
						for len(s.Inflight) > 0 {
							if r.Intn(3) == 0 {
								s.Drop(0)
							} else {
								s.Deliver(0, false)
							}
						}
					}
				}
			}
			for _, x := range s.Nodes {
				if x.Started && x.Idx != big {
					for k := 0; k < 1+r.Intn(4); k++ {
						s.Apply(Action{Kind: "upsert", Node: x.Idx, Key: RandKey(r, 5), Val: RandValue(r, 60)})
					}
				}
			}
			if cfg.LateStart > 0 {
				late := s.Nodes[n-1]
				s.Apply(Action{Kind: "start", Node: late.Idx})
				s.Introduce(late.Idx, r.Intn(n-1))
				s.Apply(Action{Kind: "upsert", Node: late.Idx, Key: "late", Val: "1"})
			}
		case "expiry-history":
			s.Bootstrap(true)
			s.Apply(Action{Kind: "setMax", Th: 200 + r.Intn(1200)})
			p := fullProfile()
			p.Crash, p.MaxCrashes = 0, 0
			for s.Step < steps && !s.Failed() {
				if !s.RandomStep(p) {
					break
				}
			}
			// the partition heals: everything in flight is delivered or dropped
			for len(s.Inflight) > 0 && !s.Failed() {
				if r.Intn(2) == 0 {
					s.Deliver(0, false)
				} else {
					s.Drop(0)
				}
			}
		}
		if !s.Failed() {
			live := s.liveNodes()
			feas := s.feasibleSize(live)
			size := feas
			switch r.Intn(4) {
			case 0: // the feasibility edge: digests and deltas carry one element
			case 1:
				size = feas + r.Intn(40)
			case 2:
				size = feas + r.Intn(400)
			default:
				size = feas + r.Intn(1400)
			}
			if size < 60 {
				size = 60
			}
			s.Apply(Action{Kind: "setMax", Th: size})
			s.Stats["closure_packet_size_total"] += int64(size)
			s.Closure(taint, variant == "expiry-history")
		}
		if variant != "expiry-history" && s.Known["delta-base-ahead-of-view"] > 0 {
			s.Fail("taint-without-expiry", "a pair was classified as F3-tainted in a run without expiry")
		}
		sh.Eval()
		addStats(sh, s)
		if i < 3 {
			sh.Sample(map[string]any{"variant": variant, "cfg": cfg, "closure_packet_size": s.Cfg.MaxPacketSize, "stats": s.Stats, "last_actions": describeTrail(s.Trail, 12)})
		}
		if s.Stats["closures_from_divergent_state"] > 0 && s.Stats["pairs_converged_exactly"] > 0 && s.Stats["truncated_deltas"] > 0 {
			sh.Nontrivial(core.Hash(variant, cfg.N, s.Cfg.MaxPacketSize, s.Stats["closure_phi0_total"], s.Stats["closure_sweeps_total"], s.Stats["truncated_deltas"], finalHash(s)))
		}
		reportFailures(sh, "C03", s, variant)
		s.Close()
	}
}

// replayC03 re-applies the recorded actions (including the closure's exchanges)
// and judges the end state.
func replayC03(raw json.RawMessage) (string, bool) {
	var w Witness
	if err := json.Unmarshal(raw, &w); err != nil {
		return "bad witness: " + err.Error(), false
	}
	s := Replay(w.Cfg, w.Trail, c03Monitors)
	defer s.Close()
	if s.Failed() {
		return fmt.Sprintf("[%s] %s", s.Failures[0].Sig, s.Failures[0].What), true
	}
	live := s.liveNodes()
	if phi := s.phi(live); phi > 0 {
		// same judgement as the live run: lagging pairs blocked by an individually
		// oversize entry are known finding F1, anything else is a violation
		var taint *TaintTracker
		for _, m := range s.Monitors {
			if t, ok := m.(*TaintTracker); ok {
				taint = t
			}
		}
		s.judgeStall(live, taint, 0, phi, phi, false)
		if s.Failed() {
			return fmt.Sprintf("[%s] after replaying %d actions (incl. the closure's loss-free exchanges): %s", s.Failures[0].Sig, len(w.Trail), s.Failures[0].What), true
		}
		return fmt.Sprintf("replayed %d actions; potential %d remains, every lagging pair is blocked by an entry that does not fit an empty datagram (known finding F1)", len(w.Trail), phi), false
	}
	for _, p := range live {
		for _, o := range live {
			if p.Idx == o.Idx {
				continue
			}
			st, ok := p.V.Node(o.ID)
			if !ok || !sameEntries(st, o.V.LocalNode()) {
				return fmt.Sprintf("[converged-but-different] n%d's view of n%d differs from the owner's state", p.Idx, o.Idx), true
			}
		}
	}
	return fmt.Sprintf("replayed %d actions; converged", len(w.Trail)), false
}

func init() {
	props.Register(&props.Prop{
		ID: "C03", Level: "exploration",
		Rule: "real-socket leg: three gossip.New instances over loopback UDP/TCP (real Serve loops and read buffers, 5 ms interval) with a maximum packet size drawn from 600 B to 16 KiB and values up to a third of it; after a seeded history of 60-260 writes/deletes/compactions the views must equal the owners' states; a round is a violation only if that has not happened 60 s after the last update and no view has changed for 15 s (a stall, not slowness). Simulator legs: start states: (a) the divergent state left by a random history with heavy loss, duplication, delay, truncation, compaction, leave and stream join (no expiry), (b) hand-shaped states (introduction chain where each node knows one peer, one owner with up to 500 entries of 0..600 byte values and unicode keys, intermediate compactions seen by some, a late-starting node), (c) the state left by a history with liveness/expiry/delay (F3-tainted pairs classified by provenance). Then writes stop, the packet size is redrawn from the feasibility edge (largest single entry / digest element) upwards, and a fair closure runs (every live node gossips once with every live node it knows per sweep, loss-free). Oracle: potential never increases, reaches 0 within 200+4*phi0 sweeps, no 200-sweep window without progress, and at 0 every view deep-equals the owner's state (entries incl. tombstones, versions) with no left/unreachable flag; the C02 authenticity/completeness monitor runs after every step. Stalls explained by an individually oversize entry are known finding F1; tainted pairs are F3. Non-trivial = closure started from a divergent state, ended in exact equality, and saw truncated deltas; distinct = hash of (variant, config, closure size, phi0, sweeps, final states).",
		Assumptions: []string{
			"'eventually' restated as the sweep bound above; fairness = every known live pair exchanges once per sweep, loss-free",
			"sequentially consistent scheduler; liveness re-evaluated each sweep in expiry runs so stale unreachable flags clear",
			"packet sizes below the feasibility edge are not required to converge (C13 covers them for safety)",
		},
		RequireCounters: []string{"closures_from_divergent_state", "pairs_converged_exactly", "truncated_deltas", "truncated_digests", "compactions", "closure_sweeps_total", "socket_rounds_converged", "socket_rounds_with_large_packets"},
		MaxCounters:     []string{"closure_sweeps_max"},
		Timeout:         simTimeout(10*time.Minute, 120*time.Minute),
		Run:             runC03,
		Replay:          replayC03,
	})
}
