package gsim

import (
	"fmt"
	"sort"
	"strconv"

	"github.com/andydunstall/piko/pkg/gossip"
)

// ---- owner write history -------------------------------------------------------

// OwnerHistory is everything an owner ever held, obtained by observing its
// LocalNode() after each of its own local actions.
type OwnerHistory struct {
	All     map[gossip.Entry]bool
	Latest  map[string]gossip.Entry // key -> highest-version write ever
	Current map[string]gossip.Entry
	Version uint64
	// current compaction marker (m*, c*)
	HasMarker     bool
	MarkerVersion uint64
	CompactPoint  uint64
	Compactions   int
}

func NewOwnerHistory() *OwnerHistory {
	return &OwnerHistory{All: map[gossip.Entry]bool{}, Latest: map[string]gossip.Entry{}, Current: map[string]gossip.Entry{}}
}

func (h *OwnerHistory) Observe(ln *gossip.NodeState) {
	h.Version = ln.Version
	h.Current = map[string]gossip.Entry{}
	hadMarker, oldM := h.HasMarker, h.MarkerVersion
	h.HasMarker = false
	for _, e := range ln.Entries {
		h.All[e] = true
		h.Current[e.Key] = e
		if l, ok := h.Latest[e.Key]; !ok || e.Version > l.Version {
			h.Latest[e.Key] = e
		}
		if e.Internal && e.Key == gossip.VCompactKey && !e.Deleted {
			c, err := strconv.ParseUint(e.Value, 10, 64)
			if err == nil {
				h.HasMarker = true
				h.MarkerVersion = e.Version
				h.CompactPoint = c
			}
		}
	}
	if h.HasMarker && (!hadMarker || oldM != h.MarkerVersion) {
		h.Compactions++
	}
}

// ---- recording watcher (C14 fold model) -----------------------------------------

type RecNode struct {
	KV          map[string]string
	Left        bool
	Unreachable bool
}

type Recorder struct {
	self   string
	Nodes  map[string]*RecNode
	Events int64
	Kinds  map[string]int64
	// protocol violations noticed at callback time
	Bad []string
	// event log (bounded) for witnesses
	Log []string
}

func NewRecorder(self string) *Recorder {
	return &Recorder{self: self, Nodes: map[string]*RecNode{}, Kinds: map[string]int64{}}
}

func (r *Recorder) ev(format string, a ...any) {
	r.Events++
	for i := 0; i < len(format); i++ {
		if format[i] == ' ' {
			r.Kinds[format[:i]]++
			break
		}
	}
	if len(r.Log) < 400 {
		r.Log = append(r.Log, fmt.Sprintf(format, a...))
	}
}

func (r *Recorder) bad(format string, a ...any) {
	if len(r.Bad) < 10 {
		r.Bad = append(r.Bad, fmt.Sprintf(format, a...))
	}
}

func (r *Recorder) get(id, what string) *RecNode {
	if id == r.self {
		r.bad("%s about the local node %s", what, id)
		return nil
	}
	n, ok := r.Nodes[id]
	if !ok {
		r.bad("%s for node %s that was not announced (or already expired)", what, id)
		return nil
	}
	return n
}

func (r *Recorder) OnJoin(id string) {
	r.ev("join %s", id)
	if id == r.self {
		r.bad("join about the local node %s", id)
		return
	}
	if _, ok := r.Nodes[id]; ok {
		// a redundant announcement does not change the fold
		return
	}
	r.Nodes[id] = &RecNode{KV: map[string]string{}}
}

func (r *Recorder) OnLeave(id string) {
	r.ev("leave %s", id)
	if n := r.get(id, "leave"); n != nil {
		n.Left = true
	}
}

func (r *Recorder) OnReachable(id string) {
	r.ev("reachable %s", id)
	if n := r.get(id, "reachable"); n != nil {
		n.Unreachable = false
	}
}

func (r *Recorder) OnUnreachable(id string) {
	r.ev("unreachable %s", id)
	if n := r.get(id, "unreachable"); n != nil {
		n.Unreachable = true
	}
}

func (r *Recorder) OnUpsertKey(id, k, v string) {
	r.ev("upsert %s %q=%q", id, k, trunc(v))
	if n := r.get(id, "upsert"); n != nil {
		n.KV[k] = v
	}
}

func (r *Recorder) OnDeleteKey(id, k string) {
	r.ev("delete %s %q", id, k)
	if n := r.get(id, "delete"); n != nil {
		delete(n.KV, k)
	}
}

func (r *Recorder) OnExpired(id string) {
	r.ev("expired %s", id)
	if n := r.get(id, "expired"); n != nil {
		delete(r.Nodes, id)
	}
}

// visibleKV is the non-deleted, non-internal part of a node state.
func visibleKV(st *gossip.NodeState) map[string]string {
	m := map[string]string{}
	for _, e := range st.Entries {
		if e.Deleted || e.Internal {
			continue
		}
		m[e.Key] = e.Value
	}
	return m
}

func sameKV(a, b map[string]string) bool {
	if len(a) != len(b) {
		return false
	}
	for k, v := range a {
		if w, ok := b[k]; !ok || w != v {
			return false
		}
	}
	return true
}

func kvString(m map[string]string) string {
	keys := make([]string, 0, len(m))
	for k := range m {
		keys = append(keys, k)
	}
	sort.Strings(keys)
	s := "{"
	for _, k := range keys {
		s += fmt.Sprintf("%q:%q ", k, trunc(m[k]))
	}
	return s + "}"
}

func stateString(st *gossip.NodeState) string {
	s := fmt.Sprintf("%s@v%d left=%v unreachable=%v [", st.ID, st.Version, st.Left, st.Unreachable)
	for _, e := range st.Entries {
		flag := ""
		if e.Deleted {
			flag += "D"
		}
		if e.Internal {
			flag += "I"
		}
		s += fmt.Sprintf("%q=%q@%d%s ", e.Key, trunc(e.Value), e.Version, flag)
	}
	return s + "]"
}
