module verif/harness

go 1.25.5

require (
	github.com/andydunstall/piko v0.0.0
	github.com/andydunstall/yamux v0.1.6
	github.com/anishathalye/porcupine v1.3.0
	github.com/gin-gonic/gin v1.11.0
	github.com/golang-jwt/jwt/v5 v5.3.1
	github.com/gorilla/websocket v1.5.3
)

require (
	github.com/MicahParks/jwkset v0.11.0 // indirect
	github.com/MicahParks/keyfunc/v3 v3.8.0 // indirect
	github.com/beorn7/perks v1.0.1 // indirect
	github.com/cespare/xxhash/v2 v2.3.0 // indirect
	github.com/gabriel-vasile/mimetype v1.4.8 // indirect
	github.com/gin-contrib/sse v1.1.0 // indirect
	github.com/go-playground/locales v0.14.1 // indirect
	github.com/go-playground/universal-translator v0.18.1 // indirect
	github.com/go-playground/validator/v10 v10.27.0 // indirect
	github.com/goccy/go-yaml v1.19.2 // indirect
	github.com/hashicorp/go-sockaddr v1.0.7 // indirect
	github.com/leodido/go-urn v1.4.0 // indirect
	github.com/mattn/go-isatty v0.0.20 // indirect
	github.com/munnerz/goautoneg v0.0.0-20191010083416-a7dc8b61c822 // indirect
	github.com/pelletier/go-toml/v2 v2.2.4 // indirect
	github.com/prometheus/client_golang v1.23.2 // indirect
	github.com/prometheus/client_model v0.6.2 // indirect
	github.com/prometheus/common v0.66.1 // indirect
	github.com/prometheus/procfs v0.16.1 // indirect
	github.com/quic-go/qpack v0.5.1 // indirect
	github.com/quic-go/quic-go v0.54.0 // indirect
	github.com/spf13/pflag v1.0.10 // indirect
	github.com/ugorji/go/codec v1.3.1 // indirect
	go.uber.org/atomic v1.11.0 // indirect
	go.uber.org/multierr v1.11.0 // indirect
	go.uber.org/zap v1.27.1 // indirect
	go.yaml.in/yaml/v2 v2.4.2 // indirect
	golang.org/x/crypto v0.41.0 // indirect
	golang.org/x/net v0.43.0 // indirect
	golang.org/x/sync v0.19.0 // indirect
	golang.org/x/sys v0.35.0 // indirect
	golang.org/x/text v0.28.0 // indirect
	golang.org/x/time v0.9.0 // indirect
	google.golang.org/protobuf v1.36.9 // indirect
)

replace github.com/andydunstall/piko => /repo
