#!/bin/bash
# dev helper: tools_mut.sh <name> '<shell command that edits the scratch worktree, run inside it>' <ID>...
# Creates /tmp/mut/<name> from /repo HEAD, applies the edit, checks it still builds,
# runs the given checks against it (quick unless MUT_TIER is set), prints DETECTED/MISSED, cleans up.
set -uo pipefail
export GOFLAGS=-mod=mod GOPROXY=off
V="$(cd "$(dirname "$0")" && pwd)"
name="$1"; edit="$2"; shift 2
wt=/tmp/mut/$name; out=/tmp/mut/$name-out
rm -rf "$wt" "$out"; git -C /repo worktree prune; mkdir -p /tmp/mut "$out"
git -C /repo worktree add --detach "$wt" >/dev/null 2>&1 || { echo "ERROR worktree"; exit 2; }
( cd "$wt" && eval "$edit" ) || { echo "$name ERROR edit failed"; git -C /repo worktree remove --force "$wt"; exit 2; }
if [ -z "$(git -C "$wt" status --porcelain)" ]; then echo "$name ERROR edit changed nothing"; git -C /repo worktree remove --force "$wt"; exit 2; fi
( cd "$wt" && go build ./... ) >/dev/null 2>&1 || { echo "$name ERROR mutant does not build"; git -C /repo worktree remove --force "$wt"; exit 2; }
for id in "$@"; do
  VERIF_REPO="$wt" VERIF_OUT="$out" "$V/check" "$id" "${MUT_TIER:-quick}" > "$out/$id.txt" 2>&1
  rc=$?
  case $rc in
    1) echo "$name $id DETECTED: $(grep -a -m1 -A1 '^VIOLATION' "$out/$id.txt" | tail -1 | cut -c1-260)";;
    0) echo "$name $id MISSED";;
    *) echo "$name $id ERROR rc=$rc: $(tail -3 "$out/$id.txt" | cut -c1-300)";;
  esac
done
git -C /repo worktree remove --force "$wt"
rm -rf "$V/build/$(echo -n "$wt" | md5sum | cut -c1-8)" "$out"
