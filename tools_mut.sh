#!/bin/bash
# dev helper: tools_mut.sh <name> <ID> <tier> -- runs a check against a scratch worktree /tmp/mut/<name>
# (create the worktree and edit it first: git -C /repo worktree add --detach /tmp/mut/<name>)
name="$1"; id="$2"; tier="${3:-quick}"
export VERIF_REPO=/tmp/mut/$name VERIF_OUT=/tmp/mut/$name-out
mkdir -p "$VERIF_OUT"
/verif/check "$id" "$tier"
