#!/bin/bash
# usage: failpoint_leg.sh <ID>      (thorough tier of C05 / C20 only)
#
# Widening with gofail failpoints, without touching the repository: a scratch
# COPY of the current working tree of $VERIF_REPO (default /repo) is made under a
# temp dir, `// gofail:` markers are inserted at three existing suspension points
# (between cluster.State releasing its lock and calling its subscribers, and
# between the syncer reading the local count and publishing it), `gofail enable`
# rewrites the copy, the harness is built against it and the check's quick-size
# workload is run with sleeps injected at those points with probability 1/3.
# The copy and its build output are deleted afterwards.
#
# exit 0 = held; 1 = VIOLATION lines printed; 3 = skipped (anchors moved, or
# gofail could not be built) - the caller records the skip, it is never a verdict.
set -uo pipefail
export GOFLAGS=-mod=mod GOPROXY=off GONOSUMDB='*'
V="$(cd "$(dirname "$0")" && pwd)"
ID="$1"
REPO="${VERIF_REPO:-/repo}"
W=$(mktemp -d /tmp/verif-fp.XXXXXX)
trap 'rm -rf "$W" "$V/build/$(echo -n "$W/piko" | md5sum | cut -c1-8)"' EXIT
mkdir -p "$W/tool" "$V/build"
cat > "$W/tool/go.mod" <<'EOF'
module verif/tools/gofail

go 1.25.5

require go.etcd.io/gofail v0.2.0
EOF
( cd "$W/tool" && go build -o "$W/gofail" go.etcd.io/gofail ) >"$W/gofail-build.log" 2>&1 || { echo "FAILPOINT-LEG skipped: gofail v0.2.0 could not be built from the module cache"; exit 3; }
rsync -a --exclude .git "$REPO/" "$W/piko/"
python3 - "$W/piko" <<'EOF' || { echo "FAILPOINT-LEG skipped: anchors for the failpoints were not found in the working tree"; exit 3; }
import sys
root=sys.argv[1]
p=root+'/server/cluster/state.go'
s=open(p).read()
anchor='''	s.mu.Unlock()

	for _, f := range subscribers {
		f(endpointID)
	}'''
if s.count(anchor)!=2: sys.exit(1)
for name in ('verifAfterAddLocalUnlock','verifAfterRemoveLocalUnlock'):
    s=s.replace(anchor,'''	s.mu.Unlock()

	// gofail: var %s struct{}
	for _, f := range subscribers {
		f(endpointID)
	}'''%name,1)
open(p,'w').write(s)
p=root+'/server/gossip/syncer.go'
s=open(p).read()
a='	listeners := s.clusterState.LocalEndpointListeners(endpointID)\n'
if s.count(a)!=1: sys.exit(1)
s=s.replace(a,a+'	// gofail: var verifBeforePublish struct{}\n')
open(p,'w').write(s)
EOF
( cd "$W/piko" && "$W/gofail" enable server/cluster server/gossip && go mod edit -require go.etcd.io/gofail@v0.2.0 && cat "$W/tool/go.sum" >> go.sum && go build ./... ) >"$W/enable.log" 2>&1 || { echo "FAILPOINT-LEG skipped: the failpoint-enabled copy does not build"; tail -5 "$W/enable.log"; exit 3; }
OUT="$W/out"; mkdir -p "$OUT"
export GOFAIL_FAILPOINTS='verifAfterAddLocalUnlock=33.0%sleep(1);verifAfterRemoveLocalUnlock=33.0%sleep(1);verifBeforePublish=33.0%sleep(1)'
VERIF_REPO="$W/piko" VERIF_OUT="$OUT" "$V/check" "$ID" quick > "$OUT/run.txt" 2>&1
rc=$?
grep -E "^property=" "$OUT/run.txt" | sed 's/^/FAILPOINT-LEG /' | cut -c1-300
if [ $rc -eq 1 ]; then
  # keep the witness material where the caller can find it
  mkdir -p "$V/replays/$ID-failpoints" "$V/logs"; cp -r "$OUT/replays/$ID/." "$V/replays/$ID-failpoints/" 2>/dev/null
  cp "$OUT/run.txt" "$V/logs/$ID-failpoint-leg.txt" 2>/dev/null
  echo "VIOLATION property=$ID replay=$V/logs/$ID-failpoint-leg.txt"
  echo "  [failpoint-leg] with sleeps injected (gofail, probability 1/3) after cluster.State's unlock and before the syncer's publication:"
  grep -A1 "^VIOLATION" "$OUT/run.txt" | grep "^  \[" | head -3 | cut -c1-700
  exit 1
fi
[ $rc -eq 0 ] && exit 0
exit 3
