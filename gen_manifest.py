#!/usr/bin/env python3
"""Writes /verif/MANIFEST.json from the table below (kept in one place so the
manifest stays valid and in sync with the checks that exist)."""
import json, os

HERE = os.path.dirname(os.path.abspath(__file__))

E1 = "E1 gsim: deterministic packet-level simulator over the real pkg/gossip code"
E2 = "E2 nodes: real in-process server nodes on loopback (race build)"
E3 = "E3 procs: cluster of real piko server processes"
E4 = "E4 comp: component harness from public constructors (race build)"

# id -> (engine, level category, level text, level note, technique, design ref)
CHECKS = {
 "C01": (E2, "exploration",
   "Runtime monitor on clusters of 1-4 real in-process nodes under the race detector: every upstream stamps what it serves; requests in all addressing modes run against upstream churn and every outcome must be a stamp of the addressed endpoint or a gateway refusal; after a logically decided settle every (entry node, endpoint, mode) is probed for 200-iff-served / 502.",
   "Interleavings sampled by repetition; 'settled' decided from the nodes' own tables with a watchdog whose firing is inconclusive.",
   "runtime monitoring: stamp/nonce oracle on real nodes under churn + settle-then-probe", "4/C01"),
 "C06": (E2, "exploration",
   "Runtime monitor on stand-alone real nodes with injected (possibly inconsistent) routing views: per request the per-node proxy-handler and Select counter deltas are read from /metrics at quiescence and judged together with the serving stamp. The view space for N=2 and N=3 is enumerated completely, N=4 sampled; HTTP, HTTP-with-Upgrade and TCP routes; proxy timeout default and disabled.",
   "Sequential requests; counters scraped after the in-flight gauge is zero (second scrape, because a scrape is not atomic).",
   "runtime monitoring: counter-delta + stamp oracle over an enumerated space of injected routing views", "4/C06"),
 "C02": (E1, "exploration",
   "Runtime monitor over seeded simulator executions of the real gossip code: after every scheduler step an oracle compares every (observer, owner) view against the owner's recorded write history (authenticity, completeness at the reported version, monotone versions, own state untouched by received messages). Held on the explored executions only.",
   "Sequentially consistent scheduler; the overlay shim only re-exports unexported functions; write history obtained by observing LocalNode() after each local action.",
   "runtime monitoring: trace oracle over simulated gossip executions (loss, duplication, delay, truncation, relay)", "4/C02"),
 "C16": (E2, "fault_enumeration",
   "Runtime monitor on a fully assembled real node under the race detector: a finite list of connection-ending faults (client disconnects, go-away then close, go-away with siblings, FIN/RST cuts through an interposed proxy, server-side shedding, server shutdown, token expiry with and without disconnect-on-expiry) is run one by one and in seeded sequences over 1-24 concurrent upstreams with requests in flight; at every quiescent point the registry, the routing-table entry, the published gossip entries and the session count must equal the connections the harness holds open, and be empty at the end; expiring tokens must be closed inside [T-1.1 s, T+5 s] and not otherwise.",
   "Quiescence is polled (20 s); the expiry window is the only wall-clock verdict and is generous; rebalance parameters set through a verif-tagged setter.",
   "runtime monitoring: enumerated fault list with a four-view equality oracle at quiescent points + race detector", "4/C16"),
 "C20": (E2, "exploration",
   "Sanitizer + runtime monitor: race-built real nodes under 16-64 goroutines of mixed upstream churn, HTTP/TCP requests, status reads and node restarts with a 30 s per-operation watchdog, and the gossip core over real sockets with its periodic task bodies invoked at high frequency next to writers and readers; zero race reports, zero panics/fatal errors (child-process isolation), zero watchdog expiries, and mutual consistency of registry, routing table and published gossip at the final quiescent point.",
   "The Go race detector observes only the interleavings that occurred; workloads are repeated and perturbed, not enumerated. C05/C15 concurrent phases add to the reach.",
   "sanitizer (Go race detector) + bounded-completion watchdog + quiescent-consistency oracle over repeated stress workloads", "4/C20"),
 "C17": (E1, "exploration",
   "Runtime monitor: seeded operation sequences on the real clusterState checked after every operation against a last-write-wins reference model, plus lagging/fresh observer synchronisation in the simulator.",
   "Reserved _internal: keys are not written by callers; single goroutine.",
   "runtime monitoring: reference-model oracle after every operation", "4/C17"),
 "C03": (E1, "exploration",
   "Runtime monitor: from divergent start states produced by lossy/expiry histories and hand-shaped states, a fair loss-free closure is run on the real gossip code at packet sizes from the feasibility edge upwards; the oracle demands a non-increasing potential that reaches 0 within a sweep bound with exact equality of every view and the owner's state. 'Eventually' is decided only in this bounded form.",
   "Fairness = every known live pair exchanges once per sweep; F1 (oversize entry) and F3 (delta delayed across expiry) are listed known findings with machine-evaluated signatures; knowledge graph made connected before the closure.",
   "runtime monitoring: bounded-progress (potential function) oracle + exact-equality check over simulated closures", "4/C03"),
 "C04": (E1, "exploration",
   "Runtime monitor over simulator executions with the real cluster.State and syncer attached to every node: after every step table==f(gossip view), caught-up => table==owner's endpoints/addresses, and LookupEndpoint validity/completeness for every endpoint id.",
   "Sequential scheduler; F3-tainted pairs are classified from datagram provenance and reported as KNOWN-FINDING; half the runs have no expiry so no taint is possible there.",
   "runtime monitoring: per-step mirror oracle (routing table vs gossip view vs owner truth) over simulated histories", "4/C04"),
 "C05": (E4, "exploration",
   "Runtime monitor with the race detector: the real manager + cluster.State + syncer + gossip state are driven by seeded sequential histories (incl. repeated/late/never-added removals) and by concurrent workers plus proxy-style removers with injected publication delays; the three published views must equal the reference count after every operation / at every barrier.",
   "Upstream objects registered at most once; publication observed on the node's own gossip state; concurrency explored by repetition and injected delays, not enumerated.",
   "runtime monitoring: reference-count oracle at quiescent points + Go race detector over concurrent histories with injected delays", "4/C05"),
 "C15": (E4, "exploration",
   "Runtime monitor: sequential histories of add/remove/select on the real LoadBalancedManager judged against a reference set with permutation-window fairness and starvation bounds; concurrent histories recorded at the call boundary and checked with porcupine against a set model partitioned by endpoint, under the race detector.",
   "Round-robin order is judged sequentially only; porcupine timeouts are inconclusive.",
   "runtime monitoring: reference-model oracle + porcupine linearizability check of recorded concurrent histories + race detector", "4/C15"),
 "C18": (E3, "fault_enumeration",
   "Runtime monitor on clusters of real piko server processes: the complete victim x phase x signal fault list (SIGTERM/SIGKILL at idle, with upstreams, with requests in flight, mid-shutdown) is executed; the oracle reads exit status and timing of the victim, the survivors' routing tables through the admin API at the instant of exit, the listeners' own Serve/Accept results, re-registration counts, settle-then-probe through every survivor and the forwarded-request counters.",
   "Settling decided from the survivors' admin API; slowness beyond the 60 s watchdog is inconclusive; mid-shutdown approximated by a second signal after 150 ms; thorough tier uses the race-built server binary and 3-5 nodes.",
   "runtime monitoring: enumerated crash/shutdown fault list on real processes with black-box admin-API and client-side oracles", "4/C18"),
 "C19": (E4, "exploration",
   "Runtime monitor on the real upstream.Server.Rebalance() with real WebSocket+yamux sessions and injected routing views: per case the number of sessions closed by one call is read from the server and cross-checked with the clients, and judged against exact-rational reference bounds. The parameter grid is enumerated completely; further seeded cases use up to 300 sessions.",
   "Safety only (no lower bound); rebalance configuration swapped through a verif-tagged setter; quiescence (no closed-but-registered session) established before each call.",
   "runtime monitoring: reference-bound oracle over an enumerated configuration grid with real sessions", "4/C19"),
 "C07": (E2, "exploration",
   "Runtime monitor under the race detector: over six real tunnel paths (dialer, forward proxy, two nodes, client forwarder, agent TCP proxy, bare WebSocket adapter) seeded bidirectional byte streams with hostile chunking are compared incrementally at both ends, a seeded end closes and the other must see every byte then end-of-stream; after each batch the proxy in-flight gauges and the goroutine count must be back at baseline.",
   "Connections per shard are sequential; the closing end drains its direction first (WebSocket tunnels have no half-close; an unread empty message at close is TCP-level unread data and is excluded).",
   "runtime monitoring: incremental prefix-equality oracle + close-propagation and resource-return checks on real tunnels", "4/C07"),
 "C08": (E2, "exploration",
   "Runtime monitor: a raw-socket client and a raw recording responder on a piko listener compare, per seeded request, what was sent with what the upstream saw and what the upstream answered with what the client received, modulo the documented additions; the gateway failure matrix (400/502/504, upgrade exemption, timing bounds) is enumerated completely on the local and the forwarded path with a 20 s no-hang watchdog.",
   "Only RFC-legal request targets (no raw non-ASCII); reason phrases, header-name case and framing headers are not compared; responses always carry a Content-Type. The agent's HTTP reverse proxy (agent/reverseproxy) is on the path for a third of the transparency requests and has its own fault matrix (502/504 at the agent's timeout, upgrades exempt).",
   "runtime monitoring: differential wire-level oracle (sent vs seen, answered vs received) + enumerated fault matrix with timing bounds", "4/C08"),
 "C09": (E2, "fault_enumeration",
   "Runtime monitor on fully assembled real nodes with authentication on all three ports: the complete route x token-variation x key-configuration matrix (routes read from the running engines; ~70 token variations incl. alg=none, algorithm confusion, tampering, expiry/nbf, audience/issuer, JWKS kid handling, header precedence) is sent through raw sockets; a non-valid token must get 401 with nothing observed behind the port, a valid one exactly what the unauthenticated twin answers.",
   "Handler execution is observed through sinks (recording upstream, recording forward target, registry), not by instrumenting handlers; expiry margins of two minutes.",
   "runtime monitoring: exhaustive enumeration of a finite fault (token) list against every registered route, black-box oracle with sinks", "4/C09"),
 "C10": (E2, "fault_enumeration",
   "Runtime monitor on real nodes: claim-set x naming x target x path matrix on the proxy port (stamp of the serving upstream identifies the endpoint actually routed to), claim-set x endpoint matrix on the upstream port (registry delta identifies the endpoint registered), and the tenant-table x signer x tenant-header matrix; all enumerated completely.",
   "HMAC keys only (families are C09's subject); 502 for a permitted endpoint retried once after routing re-settles.",
   "runtime monitoring: exhaustive enumeration of finite claim/tenant matrices with stamp and registry oracles", "4/C10"),
 "C11": (E1, "exploration",
   "Runtime monitor over seeded simulator executions of the real membership code with a logical clock: per-step flag rules on every survivor (local node never flagged/removed, left only if the owner left, left never revived, flagged nodes scheduled for removal and outside the live set, routing status follows flags, no discovery from a digest marking the node left, sweeps remove exactly what is due) plus bounded crash/leave closures (forgotten by all within expiry + (N+3) detection periods, stays forgotten for two more expiry periods).",
   "Failure detector replaced by a logical-clock implementation of the same interface (the real one is C12's subject); sequential scheduler; liveness restated as a bound.",
   "runtime monitoring: per-step membership invariants + bounded-closure oracle over simulated fault schedules", "4/C11"),
 "C12": (E1, "exploration",
   "Runtime oracle: the real accrual detector (explicit-timestamp entry points) is driven with seeded arrival sequences and compared at every query with an exact-rational reference over the last W intervals; derived rules (zero at arrival, steady peers below threshold, silent peers above, eviction independence) are asserted on the same runs.",
   "Explicit timestamps, so no wall clock in verdicts; never-heard peers only checked against the contract.",
   "runtime monitoring: differential oracle (exact rational reference) over seeded arrival histories", "4/C12"),
 "C13": (E1, "exploration",
   "Three runtime monitors on the real codec and handlers: every-size encode sweep with independently computed element boundaries (fits, maximal prefix, round trip), an emission monitor on every datagram emitted in simulator runs, and hostile-input enumeration + mutation fuzzing of the packet and stream handlers in child processes (no panic, no hang, own state unchanged, still serving).",
   "Hostile input space sampled (structured mutations + enumeration of truncation points); bounded time judged with a watchdog >=10x expected.",
   "runtime monitoring: codec differential sweep + emission monitor + hostile-input fault injection in isolated child processes", "4/C13"),
 "C14": (E1, "exploration",
   "Runtime monitor: a recording watcher folds every callback into a model of the cluster; after every simulator step the model must equal the node's visible state (node set, live key/values, flags) and per-callback ordering rules must hold.",
   "Sequential scheduler; watcher invoked under the state mutex as in production.",
   "runtime monitoring: fold-of-notifications == visible-state oracle after every simulated step", "4/C14"),
}

NOT_YET = {
}

def main():
    props = [json.loads(l) for l in open(os.path.join(HERE, "properties.jsonl"))]
    checks = []
    na = []
    for p in props:
        pid = p["id"]
        if pid in CHECKS:
            eng, cat, text, note, tech, ref = CHECKS[pid]
            checks.append({
                "property_id": pid,
                "quick_cmd": f"./check {pid} quick",
                "thorough_cmd": f"./check {pid} thorough",
                "evidence_file": f"/verif/evidence/{pid}.json",
                "replay_cmd_template": "./replay {path}",
                "engine": eng,
                "level_claimed": {"category": cat, "text": text, "design_ref": "DESIGN.md section " + ref},
                "level_note": note,
                "technique": tech,
            })
        else:
            na.append({"property_id": pid, "reason": NOT_YET.get(pid, "runtime check designed (DESIGN.md section 4) but not built yet; not claimed")})
    engines = {}
    for pid, c in CHECKS.items():
        engines.setdefault(c[0], []).append(pid)
    m = {
        "version": 1,
        "setup_cmd": "./build.sh plain race piko",
        "hooks": {
            "guard": "verif (Go build tag) + go build -overlay; no hook is committed to the repository",
            "enable": "./build.sh generates build/<tag>/overlay.json mapping non-existent paths zz_verif_export.go in pkg/gossip, server, server/gossip, server/upstream, server/proxy, server/admin to the //go:build verif shim files under /verif/overlay, and builds the harness with -overlay ... -tags verif against the current working tree of /repo (replace directive). Thorough tier of C05/C20 additionally runs failpoint_leg.sh: gofail v0.2.0 failpoints inserted into a temporary COPY of the working tree (never into /repo)",
            "baseline_off_cmd": "cd /repo && GOFLAGS=-mod=mod GOPROXY=off go test -vet=off -count=1 -timeout 25m ./...",
            "source_commits": [],
            "add_only": True,
        },
        "engines": [{"name": k.split(":")[0], "path": "/verif/harness", "serves_properties": sorted(v), "kind_free_text": k} for k, v in sorted(engines.items())],
        "checks": checks,
        "notes": "Technique family: runtime monitoring and sanitizers. Every check rebuilds the harness from /repo's working tree (./build.sh) and exits 0 / 1 (+VIOLATION line) / 2 (check error: build failure, watchdog, monitor observed nothing). Known findings: /verif/known_findings.json. Replay: ./replay <path>.",
        "not_applicable": na,
    }
    json.dump(m, open(os.path.join(HERE, "MANIFEST.json"), "w"), indent=1)

if __name__ == "__main__":
    main()
