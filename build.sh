#!/bin/bash
# Build the verification binaries from the current working tree of the
# repository ($VERIF_REPO, default /repo) with the verif overlay enabled.
# usage: build.sh [plain|race|piko|piko-race]...   prints nothing on success.
set -euo pipefail
export GOFLAGS=-mod=mod GOPROXY=off
VERIF_DIR="$(cd "$(dirname "$0")" && pwd)"
REPO="${VERIF_REPO:-/repo}"
TAG=$(echo -n "$REPO" | md5sum | cut -c1-8)
B="$VERIF_DIR/build/$TAG"
mkdir -p "$B"
# overlay.json: map non-existent paths in the repo to shim files
{
  echo '{"Replace":{'
  first=1
  while read -r dst src; do
    [ -z "$dst" ] && continue
    [ $first -eq 1 ] || echo ','
    first=0
    printf '"%s/%s":"%s/overlay/%s"' "$REPO" "$dst" "$VERIF_DIR" "$src"
  done < "$VERIF_DIR/overlay/files.txt"
  echo '}}'
} > "$B/overlay.json"
sed "s#=> /repo#=> $REPO#" "$VERIF_DIR/harness/go.mod" > "$B/go.mod"
cp "$VERIF_DIR/harness/go.sum" "$B/go.sum"
cd "$VERIF_DIR/harness"
for what in "$@"; do
  case "$what" in
    plain) go build -modfile="$B/go.mod" -overlay="$B/overlay.json" -tags verif -o "$B/vcheck" ./cmd/vcheck ;;
    race)  go build -race -modfile="$B/go.mod" -overlay="$B/overlay.json" -tags verif -o "$B/vcheck-race" ./cmd/vcheck ;;
    piko)  (cd "$REPO" && go build -o "$B/piko" .) ;;
    piko-race) (cd "$REPO" && go build -race -o "$B/piko-race" .) ;;
  esac
done
echo "$B"
